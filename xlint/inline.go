package main

// Interprocedural normal form.
//
// The rules of this checker are written against "anchor" functions and a vocabulary of callee names (the names that
// appear in the rule tables and rule sources).  Anything else that an anchor calls statically inside the repository is
// an implementation detail: whether a check or an effect sits in the anchor's own body or in a helper it calls must
// not change a verdict.  This file therefore rewrites, once after SSA construction, every in-repository function into a
// normal form in which static calls to non-vocabulary in-repository helpers are replaced by the helper's body
// (bottom-up, non-recursive, bounded), and the "x, err := helper(); if err != nil" merge that inlining creates is
// threaded per return of the helper, so that the helper's internal guards become guards of the caller.
//
// go/ssa has no public mutation API; instructions are cloned by reflection and their two private fields (owning block,
// type of a fresh phi) are set through unsafe.  Only exported accessors are used afterwards (Operands, Referrers,
// Block, Succs, Preds), and dominance is recomputed here instead of using ssa's build-time tree.

import (
	"embed"
	"fmt"
	"go/constant"
	"go/token"
	"go/types"
	"os"
	"reflect"
	"regexp"
	"sort"
	"strings"
	"unsafe"

	"golang.org/x/tools/go/ssa"
)

//go:embed *.go tables/*.json picks/*.txt
var ruleSources embed.FS

const (
	inlineMaxCallee = 260  // instructions in the (already normalised) callee
	inlineMaxCaller = 6000 // instructions in the caller after inlining
)

type inliner struct {
	p          *Program
	vocab      map[string]bool
	state      map[*ssa.Function]int // 1 in progress, 2 done
	recursive  map[*ssa.Function]bool
	cloneOf    map[ssa.Instruction]*ssa.Function // cloned instruction -> function whose source it comes from
	facts      map[*ssa.BasicBlock]map[ssa.Value]string
	conts      map[*ssa.BasicBlock]bool // continuation blocks created by a splice (candidates for threading)
	nSites     int
	nThreaded  int
	into       map[*ssa.Function][]string
	callers    map[*ssa.Function][]inlinedSite // helper -> call sites that were replaced by its body
	referenced map[*ssa.Function]bool
}

type inlinedSite struct {
	Caller *ssa.Function
	Pos    token.Pos
}

func setUnexported(obj interface{}, field string, val interface{}) {
	v := reflect.ValueOf(obj).Elem()
	f := v.FieldByName(field)
	if !f.IsValid() {
		checkerFail("internal: %T has no field %s (go/ssa layout changed)", obj, field)
	}
	reflect.NewAt(f.Type(), unsafe.Pointer(f.UnsafeAddr())).Elem().Set(reflect.ValueOf(val))
}

func setBlock(ins ssa.Instruction, b *ssa.BasicBlock) { setUnexported(ins, "block", b) }

func newBlock(fn *ssa.Function, comment string) *ssa.BasicBlock {
	b := &ssa.BasicBlock{Comment: comment}
	setUnexported(b, "parent", fn)
	return b
}

func newJump(b *ssa.BasicBlock) *ssa.Jump {
	j := &ssa.Jump{}
	setBlock(j, b)
	return j
}

func newPhi(b *ssa.BasicBlock, t types.Type, edges []ssa.Value, comment string) *ssa.Phi {
	ph := &ssa.Phi{Edges: edges, Comment: comment}
	setUnexported(ph, "typ", t)
	setBlock(ph, b)
	return ph
}

// cloneInstr makes a shallow copy of an instruction with private copies of its operand slices.
func cloneInstr(ins ssa.Instruction) ssa.Instruction {
	ov := reflect.ValueOf(ins).Elem()
	nv := reflect.New(ov.Type())
	nv.Elem().Set(ov)
	n := nv.Interface().(ssa.Instruction)
	switch t := n.(type) {
	case *ssa.Phi:
		t.Edges = append([]ssa.Value(nil), t.Edges...)
	case *ssa.Call:
		t.Call.Args = append([]ssa.Value(nil), t.Call.Args...)
	case *ssa.MakeClosure:
		t.Bindings = append([]ssa.Value(nil), t.Bindings...)
	case *ssa.Return:
		t.Results = append([]ssa.Value(nil), t.Results...)
	}
	if v, ok := n.(ssa.Value); ok {
		if r := v.Referrers(); r != nil {
			*r = nil
		}
	}
	return n
}

var identRe = regexp.MustCompile(`[A-Za-z_][A-Za-z0-9_]*`)

// vocabulary: every identifier that occurs in the rule sources and frozen tables.  A function whose name is in the
// vocabulary is part of the interface between rules and code and is never inlined.
func buildVocabulary() map[string]bool {
	v := map[string]bool{}
	add := func(s string) {
		for _, t := range identRe.FindAllString(s, -1) {
			v[t] = true
		}
	}
	ents, _ := ruleSources.ReadDir(".")
	for _, e := range ents {
		if e.IsDir() || e.Name() == "seeds.go" || e.Name() == "inline.go" {
			continue
		}
		b, _ := ruleSources.ReadFile(e.Name())
		add(stripLineComments(string(b))) // names that only occur in commentary are not vocabulary
	}
	for _, dir := range []string{"tables", "picks"} {
		ents, _ := ruleSources.ReadDir(dir)
		for _, e := range ents {
			b, _ := ruleSources.ReadFile(dir + "/" + e.Name())
			add(string(b))
		}
	}
	return v
}

func stripLineComments(src string) string {
	var sb strings.Builder
	for _, l := range strings.Split(src, "\n") {
		t := strings.TrimSpace(l)
		if strings.HasPrefix(t, "//") && !strings.HasPrefix(t, "//go:") {
			continue
		}
		sb.WriteString(l)
		sb.WriteByte('\n')
	}
	return sb.String()
}

func isGeneratedFn(p *Program, fn *ssa.Function) bool {
	if !fn.Pos().IsValid() {
		return false
	}
	f := p.Fset.Position(fn.Pos()).Filename
	return strings.HasSuffix(f, ".pb.go") || strings.HasSuffix(f, ".pb.gw.go")
}

func nInstrs(fn *ssa.Function) int {
	n := 0
	for _, b := range fn.Blocks {
		n += len(b.Instrs)
	}
	return n
}

// normalise rewrites all in-repository functions (see file comment).
func (p *Program) normalise() {
	if os.Getenv("XLINT_NO_INLINE") != "" {
		return
	}
	in := &inliner{p: p, vocab: buildVocabulary(), state: map[*ssa.Function]int{}, recursive: map[*ssa.Function]bool{},
		cloneOf: map[ssa.Instruction]*ssa.Function{}, facts: map[*ssa.BasicBlock]map[ssa.Value]string{},
		conts: map[*ssa.BasicBlock]bool{}, into: map[*ssa.Function][]string{}, callers: map[*ssa.Function][]inlinedSite{}}
	p.inl = in
	var fns []*ssa.Function
	for fn := range p.AllFuncs {
		if inTeleport(fn) && len(fn.Blocks) > 0 {
			fns = append(fns, fn)
		}
	}
	sort.Slice(fns, func(i, j int) bool {
		if fns[i].Pos() != fns[j].Pos() {
			return fns[i].Pos() < fns[j].Pos()
		}
		return fns[i].String() < fns[j].String()
	})
	for _, fn := range fns {
		in.process(fn)
	}
}

func (in *inliner) eligibleCallee(g *ssa.Function) bool {
	if g == nil || len(g.Blocks) == 0 || !inTeleport(g) || in.recursive[g] || g.Recover != nil || len(g.FreeVars) > 0 {
		return false
	}
	if in.vocab[g.Name()] || isGeneratedFn(in.p, g) || g.Parent() != nil {
		return false
	}
	if u := in.p.unwrap(g); u != g && in.vocab[u.Name()] {
		return false
	}
	return true
}

func bodyInlinable(g *ssa.Function) bool {
	rets := 0
	for _, b := range g.Blocks {
		for _, ins := range b.Instrs {
			switch ins.(type) {
			case *ssa.Defer, *ssa.Go, *ssa.Select, *ssa.RunDefers:
				return false
			case *ssa.Return:
				rets++
			}
		}
	}
	return rets > 0 && nInstrs(g) <= inlineMaxCallee
}

func (in *inliner) process(fn *ssa.Function) {
	if in.state[fn] != 0 {
		return
	}
	in.state[fn] = 1
	type site struct {
		call *ssa.Call
		g    *ssa.Function
	}
	var sites []site
	for _, b := range fn.Blocks {
		for _, ins := range b.Instrs {
			c, ok := ins.(*ssa.Call)
			if !ok || c.Call.IsInvoke() {
				continue
			}
			g := c.Call.StaticCallee()
			if mc, isClosure := c.Call.Value.(*ssa.MakeClosure); isClosure {
				// a local closure that is called directly (`flush := func() {...}; flush()`)
				if g == nil || g.Parent() != fn || mc.Parent() != fn || len(g.Blocks) == 0 || g.Recover != nil || in.recursive[g] {
					continue
				}
			} else if g == nil || g == fn || !in.eligibleCallee(g) {
				continue
			}
			if in.state[g] == 1 {
				in.recursive[g] = true
				continue
			}
			in.process(g)
			sites = append(sites, site{c, g})
		}
	}
	changed := false
	if !isGeneratedFn(in.p, fn) {
		for _, s := range sites {
			_, isClosure := s.call.Call.Value.(*ssa.MakeClosure)
			if in.recursive[s.g] || (!isClosure && !in.eligibleCallee(s.g)) || !bodyInlinable(s.g) {
				continue
			}
			if nInstrs(fn)+nInstrs(s.g) > inlineMaxCaller {
				continue
			}
			in.callers[s.g] = append(in.callers[s.g], inlinedSite{fn, s.call.Pos()})
			in.splice(fn, s.call, s.g)
			in.into[fn] = append(in.into[fn], funcName(s.g))
			in.nSites++
			changed = true
		}
	}
	if !isGeneratedFn(in.p, fn) && os.Getenv("XLINT_NO_BOOLTHREAD") == "" {
		// `ok := a && b; if !ok {…}`: the branch on a merged boolean is decided on the edges that carry a constant
		for _, b := range fn.Blocks {
			if _, isIf := lastInstr(b).(*ssa.If); !isIf || len(b.Preds) < 2 || fn.Recover != nil {
				continue
			}
			if ph, ok := b.Instrs[0].(*ssa.Phi); ok {
				bt, isB := ph.Type().Underlying().(*types.Basic)
				if !isB || bt.Info()&types.IsBoolean == 0 {
					continue
				}
				hasConst := false
				for _, e := range ph.Edges {
					if _, isC := e.(*ssa.Const); isC {
						hasConst = true
					}
				}
				if hasConst {
					in.conts[b] = true
					changed = true
				}
			}
		}
	}
	if changed {
		renumber(fn)
		// thread the continuation blocks created above, in block order
		for {
			var c *ssa.BasicBlock
			for _, b := range fn.Blocks {
				if in.conts[b] {
					c = b
					break
				}
			}
			if c == nil {
				break
			}
			delete(in.conts, c)
			if in.thread(fn, c) {
				in.nThreaded++
			}
			renumber(fn)
		}
		if in.foldNilBranches(fn) {
			renumber(fn)
		}
		removeUnreachable(fn)
		renumber(fn)
		rebuildReferrers(fn)
	}
	if !isGeneratedFn(in.p, fn) && in.splitErrorReturns(fn) {
		renumber(fn)
		rebuildReferrers(fn)
		invalidateDom(fn)
	}
	in.state[fn] = 2
}

// splitErrorReturns rewrites `return x, e` where e is an error of unknown nil-ness (typically `return helper(...)`)
// into `if e != nil { return x, e }; return x, nil`, so that a tail call and the spelled-out check-and-propagate have
// the same shape: a guard on e, and a success return dominated by e == nil.
func (in *inliner) splitErrorReturns(fn *ssa.Function) bool {
	res := fn.Signature.Results()
	if res.Len() == 0 || !isErrorType(res.At(res.Len()-1).Type()) || fn.Recover != nil {
		return false
	}
	errT := res.At(res.Len() - 1).Type()
	changed := false
	for _, b := range append([]*ssa.BasicBlock(nil), fn.Blocks...) {
		r, ok := lastInstr(b).(*ssa.Return)
		if !ok || len(r.Results) != res.Len() {
			continue
		}
		e := r.Results[len(r.Results)-1]
		if _, isConst := e.(*ssa.Const); isConst {
			continue
		}
		if in.classify(fn, e, b, 0) != "" {
			continue
		}
		// only values that stand for "whatever the callee said": a call result or a merge of such
		if !errFromCall(e, 0) {
			continue
		}
		cond := &ssa.BinOp{Op: token.NEQ, X: e, Y: ssa.NewConst(nil, errT)}
		setUnexported(cond, "typ", types.Typ[types.Bool])
		setBlock(cond, b)
		iff := &ssa.If{Cond: cond}
		setBlock(iff, b)
		bt := newBlock(fn, "split.err")
		bf := newBlock(fn, "split.ok")
		rt := cloneInstr(r).(*ssa.Return)
		setBlock(rt, bt)
		bt.Instrs = []ssa.Instruction{rt}
		bt.Preds = []*ssa.BasicBlock{b}
		rf := cloneInstr(r).(*ssa.Return)
		rf.Results[len(rf.Results)-1] = ssa.NewConst(nil, errT)
		setBlock(rf, bf)
		bf.Instrs = []ssa.Instruction{rf}
		bf.Preds = []*ssa.BasicBlock{b}
		b.Instrs = append(b.Instrs[:len(b.Instrs)-1:len(b.Instrs)-1], cond, iff)
		b.Succs = []*ssa.BasicBlock{bt, bf}
		if in.p.IsClone(r) {
			in.cloneOf[rt], in.cloneOf[rf] = in.cloneOf[r], in.cloneOf[r]
			in.cloneOf[cond], in.cloneOf[iff] = in.cloneOf[r], in.cloneOf[r]
		}
		var nblocks []*ssa.BasicBlock
		for _, x := range fn.Blocks {
			nblocks = append(nblocks, x)
			if x == b {
				nblocks = append(nblocks, bf, bt)
			}
		}
		fn.Blocks = nblocks
		changed = true
	}
	return changed
}

func errFromCall(v ssa.Value, depth int) bool {
	if depth > 4 {
		return false
	}
	switch t := v.(type) {
	case *ssa.Call:
		return true
	case *ssa.Extract:
		_, ok := t.Tuple.(*ssa.Call)
		return ok
	case *ssa.Phi:
		for _, e := range t.Edges {
			if c, ok := e.(*ssa.Const); ok && c.IsNil() {
				continue
			}
			if !errFromCall(e, depth+1) {
				return false
			}
		}
		return true
	}
	return false
}

func renumber(fn *ssa.Function) {
	for i, b := range fn.Blocks {
		b.Index = i
	}
}

func lastInstr(b *ssa.BasicBlock) ssa.Instruction {
	if len(b.Instrs) == 0 {
		return nil
	}
	return b.Instrs[len(b.Instrs)-1]
}

// replaceUses rewrites every operand equal to old into nw in all blocks of fn (and in extra, not yet linked, blocks).
func replaceUses(blocks []*ssa.BasicBlock, old, nw ssa.Value) {
	var buf [16]*ssa.Value
	for _, b := range blocks {
		for _, ins := range b.Instrs {
			for _, op := range ins.Operands(buf[:0]) {
				if *op == old {
					*op = nw
				}
			}
		}
	}
}

// splice replaces the call instruction by a copy of g's body.
func (in *inliner) splice(fn *ssa.Function, call *ssa.Call, g *ssa.Function) {
	B := call.Block()
	idx := -1
	for i, ins := range B.Instrs {
		if ins == ssa.Instruction(call) {
			idx = i
		}
	}
	if idx < 0 {
		checkerFail("internal: call not found in its block (%s)", funcName(fn))
	}
	// 1. clone g's blocks
	vmap := map[ssa.Value]ssa.Value{}
	for i, prm := range g.Params {
		vmap[prm] = call.Call.Args[i]
	}
	if mc, ok := call.Call.Value.(*ssa.MakeClosure); ok {
		for i, fv := range g.FreeVars {
			vmap[fv] = mc.Bindings[i]
		}
	}
	bmap := map[*ssa.BasicBlock]*ssa.BasicBlock{}
	var nbs []*ssa.BasicBlock
	for _, gb := range g.Blocks {
		nb := newBlock(fn, "inl:"+g.Name()+":"+gb.Comment)
		bmap[gb] = nb
		nbs = append(nbs, nb)
	}
	for _, gb := range g.Blocks {
		nb := bmap[gb]
		for _, ins := range gb.Instrs {
			ni := cloneInstr(ins)
			setBlock(ni, nb)
			nb.Instrs = append(nb.Instrs, ni)
			if ov, ok := ins.(ssa.Value); ok {
				vmap[ov] = ni.(ssa.Value)
			}
			if o, ok := in.cloneOf[ins]; ok {
				in.cloneOf[ni] = o
			} else {
				in.cloneOf[ni] = g
			}
			if al, ok := ni.(*ssa.Alloc); ok && !al.Heap {
				fn.Locals = append(fn.Locals, al)
			}
		}
		for _, s := range gb.Succs {
			nb.Succs = append(nb.Succs, bmap[s])
		}
		for _, pr := range gb.Preds {
			nb.Preds = append(nb.Preds, bmap[pr])
		}
		if f := in.facts[gb]; f != nil {
			nf := map[ssa.Value]string{}
			for k, v := range f {
				nf[k] = v // keys remapped below
			}
			in.facts[nb] = nf
		}
	}
	var buf [16]*ssa.Value
	for _, nb := range nbs {
		for _, ins := range nb.Instrs {
			for _, op := range ins.Operands(buf[:0]) {
				if *op == nil {
					continue
				}
				if nv, ok := vmap[*op]; ok {
					*op = nv
				}
			}
		}
		if f := in.facts[nb]; f != nil {
			nf := map[ssa.Value]string{}
			for k, v := range f {
				if nk, ok := vmap[k]; ok {
					nf[nk] = v
				} else {
					nf[k] = v
				}
			}
			in.facts[nb] = nf
		}
	}
	// 2. split B
	C := newBlock(fn, "inl.cont:"+g.Name())
	C.Instrs = append(C.Instrs, B.Instrs[idx+1:]...)
	for _, ins := range C.Instrs {
		setBlock(ins, C)
	}
	C.Succs = B.Succs
	for _, s := range C.Succs {
		for i, pr := range s.Preds {
			if pr == B {
				s.Preds[i] = C
			}
		}
	}
	B.Instrs = append(B.Instrs[:idx:idx], newJump(B))
	B.Succs = []*ssa.BasicBlock{nbs[0]}
	nbs[0].Preds = []*ssa.BasicBlock{B}
	if in.conts[B] {
		// B itself was a continuation awaiting threading: its tail (with the terminator) now lives in C
		// (B keeps the phis; threading B is no longer possible since its terminator is a plain jump)
		delete(in.conts, B)
	}
	// 3. returns
	nres := g.Signature.Results().Len()
	var retBlocks []*ssa.BasicBlock
	var retVals [][]ssa.Value
	for _, nb := range nbs {
		if r, ok := lastInstr(nb).(*ssa.Return); ok {
			retBlocks = append(retBlocks, nb)
			retVals = append(retVals, r.Results)
			nb.Instrs[len(nb.Instrs)-1] = newJump(nb)
			nb.Succs = []*ssa.BasicBlock{C}
			C.Preds = append(C.Preds, nb)
		}
	}
	// 4. result values
	res := make([]ssa.Value, nres)
	var phis []ssa.Instruction
	for k := 0; k < nres; k++ {
		if len(retBlocks) == 1 {
			res[k] = retVals[0][k]
			continue
		}
		edges := make([]ssa.Value, len(retBlocks))
		for i := range retBlocks {
			edges[i] = retVals[i][k]
		}
		ph := newPhi(C, g.Signature.Results().At(k).Type(), edges, "inl.ret")
		in.cloneOf[ph] = g
		res[k] = ph
		phis = append(phis, ph)
	}
	C.Instrs = append(phis, C.Instrs...)
	// 5. insert blocks and replace uses of the call
	var nblocks []*ssa.BasicBlock
	for _, b := range fn.Blocks {
		nblocks = append(nblocks, b)
		if b == B {
			nblocks = append(nblocks, nbs...)
			nblocks = append(nblocks, C)
		}
	}
	fn.Blocks = nblocks
	if nres == 1 {
		replaceUses(fn.Blocks, call, res[0])
	} else if nres > 1 {
		for _, b := range fn.Blocks {
			keep := b.Instrs[:0]
			for _, ins := range b.Instrs {
				if ex, ok := ins.(*ssa.Extract); ok && ex.Tuple == ssa.Value(call) {
					replaceUses(fn.Blocks, ex, res[ex.Index])
					continue
				}
				keep = append(keep, ins)
			}
			b.Instrs = keep
		}
	}
	if len(retBlocks) > 1 {
		in.conts[C] = true
	}
}

// ---- classification of a value at a program point (structural, no canonical expressions involved) ----

func isNilConst(v ssa.Value) bool {
	c, ok := v.(*ssa.Const)
	return ok && c.IsNil()
}

func (in *inliner) classify(fn *ssa.Function, v ssa.Value, at *ssa.BasicBlock, depth int) string {
	if depth > 8 || v == nil {
		return ""
	}
	switch t := v.(type) {
	case *ssa.Const:
		if t.IsNil() {
			return "nil"
		}
		if t.Value != nil {
			if b, ok := t.Type().Underlying().(*types.Basic); ok && b.Info()&types.IsBoolean != 0 {
				return t.Value.String()
			}
		}
		return ""
	case *ssa.MakeInterface:
		return "nonnil"
	case *ssa.ChangeInterface:
		return in.classify(fn, t.X, at, depth+1)
	case *ssa.ChangeType:
		return in.classify(fn, t.X, at, depth+1)
	case *ssa.UnOp:
		if t.Op == token.MUL {
			if g, ok := t.X.(*ssa.Global); ok && isErrorType(g.Type().(*types.Pointer).Elem()) {
				return "nonnil"
			}
		}
		if t.Op == token.NOT {
			switch in.classify(fn, t.X, at, depth+1) {
			case "true":
				return "false"
			case "false":
				return "true"
			}
			return ""
		}
	case *ssa.BinOp:
		if t.Op == token.EQL || t.Op == token.NEQ {
			var x ssa.Value
			if isNilConst(t.Y) {
				x = t.X
			} else if isNilConst(t.X) {
				x = t.Y
			}
			if x != nil {
				switch in.classify(fn, x, at, depth+1) {
				case "nil":
					if t.Op == token.EQL {
						return "true"
					}
					return "false"
				case "nonnil":
					if t.Op == token.EQL {
						return "false"
					}
					return "true"
				}
			}
		}
		return ""
	case *ssa.Phi:
		out := ""
		for i, e := range t.Edges {
			if i >= len(t.Block().Preds) {
				return ""
			}
			c := in.classify(fn, e, t.Block().Preds[i], depth+1)
			if c == "" || (out != "" && c != out) {
				return ""
			}
			out = c
		}
		if out != "" {
			return out
		}
	case *ssa.Call:
		if callee := t.Call.StaticCallee(); callee != nil {
			name := funcName(in.p.unwrap(callee))
			for _, s := range errCtorSuffixes {
				if strings.HasSuffix(name, s) {
					if strings.HasSuffix(s, "Wrap") || strings.HasSuffix(s, "Wrapf") {
						if len(t.Call.Args) > 0 && in.classify(fn, t.Call.Args[0], at, depth+1) == "nonnil" {
							return "nonnil"
						}
						return ""
					}
					return "nonnil"
				}
			}
		}
	}
	// recorded facts of threaded landing blocks that dominate `at`
	dom := domOf(fn)
	for b, f := range in.facts {
		if c, ok := f[v]; ok && b.Parent() == fn && dom.dominates(b, at) {
			return c
		}
	}
	// a dominating branch on this very value
	for _, b := range fn.Blocks {
		i, ok := lastInstr(b).(*ssa.If)
		if !ok || len(b.Succs) != 2 || b.Succs[0] == b.Succs[1] {
			continue
		}
		cond, neg := i.Cond, false
		for {
			if u, ok := cond.(*ssa.UnOp); ok && u.Op == token.NOT {
				cond, neg = u.X, !neg
				continue
			}
			break
		}
		kindTrue, kindFalse := "", ""
		same := func(o ssa.Value) bool {
			if o == v {
				return true
			}
			// `if e != nil { return e }` on a cell (captured variable): the test and the return read the cell twice;
			// they are the same value when the second read sits directly behind the branch with nothing in between
			lv, ok1 := v.(*ssa.UnOp)
			lo, ok2 := o.(*ssa.UnOp)
			if !ok1 || !ok2 || lv.Op != token.MUL || lo.Op != token.MUL || lv.X != lo.X || lv.Block() != at {
				return false
			}
			if _, isAlloc := lv.X.(*ssa.Alloc); !isAlloc {
				return false
			}
			if (len(b.Succs) > 0 && b.Succs[0] != at) && (len(b.Succs) > 1 && b.Succs[1] != at) {
				return false
			}
			for _, ins := range at.Instrs {
				if ins == ssa.Instruction(lv) {
					return true
				}
				if u, isLoad := ins.(*ssa.UnOp); !isLoad || u.Op != token.MUL {
					return false
				}
			}
			return false
		}
		if same(cond) {
			kindTrue, kindFalse = "true", "false"
		} else if bo, ok := cond.(*ssa.BinOp); ok && (bo.Op == token.EQL || bo.Op == token.NEQ) {
			if (same(bo.X) && isNilConst(bo.Y)) || (same(bo.Y) && isNilConst(bo.X)) {
				if bo.Op == token.NEQ {
					kindTrue, kindFalse = "nonnil", "nil"
				} else {
					kindTrue, kindFalse = "nil", "nonnil"
				}
			}
		}
		if kindTrue == "" {
			continue
		}
		if neg {
			kindTrue, kindFalse = kindFalse, kindTrue
		}
		if edgeDominates(fn, b, 0, at) {
			return kindTrue
		}
		if edgeDominates(fn, b, 1, at) {
			return kindFalse
		}
	}
	return ""
}

// edgeDominates: `at` is unreachable from the entry once edge (b -> b.Succs[s]) is removed.
func edgeDominates(fn *ssa.Function, b *ssa.BasicBlock, s int, at *ssa.BasicBlock) bool {
	seen := map[*ssa.BasicBlock]bool{fn.Blocks[0]: true}
	st := []*ssa.BasicBlock{fn.Blocks[0]}
	for len(st) > 0 {
		c := st[len(st)-1]
		st = st[:len(st)-1]
		if c == at {
			return false
		}
		for si, sc := range c.Succs {
			if c == b && si == s {
				continue
			}
			if !seen[sc] {
				seen[sc] = true
				st = append(st, sc)
			}
		}
	}
	return true
}

// ---- dominators (recomputed; ssa's own tree is stale after rewriting) ----

type domInfo struct {
	idom map[*ssa.BasicBlock]*ssa.BasicBlock
	nblk int
	sig  *ssa.BasicBlock
}

var domCache = map[*ssa.Function]*domInfo{}

func domOf(fn *ssa.Function) *domInfo {
	if d := domCache[fn]; d != nil && d.nblk == len(fn.Blocks) && d.sig == fn.Blocks[len(fn.Blocks)-1] {
		return d
	}
	d := computeDom(fn)
	domCache[fn] = d
	return d
}

func invalidateDom(fn *ssa.Function) { delete(domCache, fn) }

func computeDom(fn *ssa.Function) *domInfo {
	// reverse postorder
	var order []*ssa.BasicBlock
	seen := map[*ssa.BasicBlock]bool{}
	var dfs func(b *ssa.BasicBlock)
	dfs = func(b *ssa.BasicBlock) {
		seen[b] = true
		for _, s := range b.Succs {
			if !seen[s] {
				dfs(s)
			}
		}
		order = append(order, b)
	}
	roots := []*ssa.BasicBlock{fn.Blocks[0]}
	if fn.Recover != nil {
		roots = append(roots, fn.Recover)
	}
	for _, r := range roots {
		if !seen[r] {
			dfs(r)
		}
	}
	rpo := map[*ssa.BasicBlock]int{}
	for i := range order {
		rpo[order[len(order)-1-i]] = i
	}
	idom := map[*ssa.BasicBlock]*ssa.BasicBlock{}
	for _, r := range roots {
		idom[r] = r
	}
	intersect := func(a, b *ssa.BasicBlock) *ssa.BasicBlock {
		for a != b {
			for rpo[a] > rpo[b] {
				if idom[a] == a {
					return b // different roots
				}
				a = idom[a]
			}
			for rpo[b] > rpo[a] {
				if idom[b] == b {
					return a
				}
				b = idom[b]
			}
		}
		return a
	}
	for changed := true; changed; {
		changed = false
		for i := len(order) - 1; i >= 0; i-- {
			b := order[i]
			if idom[b] == b {
				continue
			}
			var nd *ssa.BasicBlock
			for _, pr := range b.Preds {
				if _, ok := idom[pr]; !ok {
					continue
				}
				if nd == nil {
					nd = pr
				} else {
					nd = intersect(pr, nd)
				}
			}
			if nd != nil && idom[b] != nd {
				idom[b] = nd
				changed = true
			}
		}
	}
	return &domInfo{idom: idom, nblk: len(fn.Blocks), sig: fn.Blocks[len(fn.Blocks)-1]}
}

func (d *domInfo) dominates(a, b *ssa.BasicBlock) bool {
	for {
		if a == b {
			return true
		}
		n, ok := d.idom[b]
		if !ok || n == b {
			return false
		}
		b = n
	}
}

// Dominates reports whether block a dominates block b (reflexive) in the rewritten function.
func (p *Program) Dominates(a, b *ssa.BasicBlock) bool {
	return domOf(a.Parent()).dominates(a, b)
}

// ---- threading of a continuation block per callee return ----

// foldIntCompare evaluates a comparison whose operands are both integer constants on this path.
func foldIntCompare(t *ssa.BinOp, edge func(ssa.Value) ssa.Value) string {
	switch t.Op {
	case token.EQL, token.NEQ, token.LSS, token.LEQ, token.GTR, token.GEQ:
	default:
		return ""
	}
	if r := foldNonNeg(t, edge); r != "" {
		return r
	}
	x, okx := edge(t.X).(*ssa.Const)
	y, oky := edge(t.Y).(*ssa.Const)
	if !okx || !oky || x.Value == nil || y.Value == nil || x.Value.Kind() != constant.Int || y.Value.Kind() != constant.Int {
		return ""
	}
	if constant.Compare(x.Value, t.Op, y.Value) {
		return "true"
	}
	return "false"
}

// rangeIndex recognises the index of a `for i := range` loop as go/ssa builds it: phi(-1, self) + 1 (never negative).
func rangeIndex(v ssa.Value) bool {
	add, ok := v.(*ssa.BinOp)
	if !ok || add.Op != token.ADD {
		return false
	}
	one, ok := add.Y.(*ssa.Const)
	if !ok || one.Value == nil || one.Value.Kind() != constant.Int || one.Int64() != 1 {
		return false
	}
	ph, ok := add.X.(*ssa.Phi)
	if !ok || len(ph.Edges) != 2 {
		return false
	}
	seenInit, seenSelf := false, false
	for _, e := range ph.Edges {
		if c, ok := e.(*ssa.Const); ok && c.Value != nil && c.Value.Kind() == constant.Int && c.Int64() == -1 {
			seenInit = true
		} else if e == ssa.Value(add) {
			seenSelf = true
		}
	}
	return seenInit && seenSelf
}

// foldNonNeg decides comparisons of a range index against 0 / -1.
func foldNonNeg(t *ssa.BinOp, edge func(ssa.Value) ssa.Value) string {
	x, y, op := edge(t.X), edge(t.Y), t.Op
	isIdx := func(v ssa.Value) bool { return rangeIndex(v) || (!isConstVal(v) && nonNegative(v, 0)) }
	if isIdx(y) {
		// mirror: c op idx  ==  idx op' c
		x, y = y, x
		switch op {
		case token.LSS:
			op = token.GTR
		case token.LEQ:
			op = token.GEQ
		case token.GTR:
			op = token.LSS
		case token.GEQ:
			op = token.LEQ
		}
	}
	if !isIdx(x) {
		return ""
	}
	c, ok := y.(*ssa.Const)
	if !ok || c.Value == nil || c.Value.Kind() != constant.Int {
		return ""
	}
	k := c.Int64()
	switch {
	case op == token.GEQ && k <= 0, op == token.GTR && k < 0, op == token.NEQ && k < 0:
		return "true"
	case op == token.LSS && k <= 0, op == token.LEQ && k < 0, op == token.EQL && k < 0:
		return "false"
	}
	return ""
}

func pureForThreading(ins ssa.Instruction) bool {
	switch t := ins.(type) {
	case *ssa.BinOp:
		switch t.Op {
		case token.EQL, token.NEQ, token.LSS, token.LEQ, token.GTR, token.GEQ:
			return true
		}
		return false
	case *ssa.UnOp:
		return t.Op == token.NOT
	case *ssa.ChangeInterface, *ssa.ChangeType, *ssa.MakeInterface:
		return true
	case *ssa.Store:
		return true // `x, err := helper()` with x living in a cell: the store is replayed on both sides
	}
	return false
}

func (in *inliner) thread(fn *ssa.Function, C *ssa.BasicBlock) bool {
	invalidateDom(fn)
	if len(C.Preds) < 2 {
		return false
	}
	var phis []*ssa.Phi
	k := 0
	for ; k < len(C.Instrs); k++ {
		ph, ok := C.Instrs[k].(*ssa.Phi)
		if !ok {
			break
		}
		phis = append(phis, ph)
	}
	rest := C.Instrs[k:]
	if len(rest) == 0 || len(rest) > 8 {
		return false
	}
	term := rest[len(rest)-1]
	mid := rest[:len(rest)-1]
	inC := map[ssa.Value]bool{}
	for _, ins := range mid {
		if !pureForThreading(ins) {
			return false
		}
		if v, ok := ins.(ssa.Value); ok {
			inC[v] = true
		}
	}
	// values computed in C (mid) must not be used outside C
	for _, b := range fn.Blocks {
		if b == C {
			continue
		}
		var buf [16]*ssa.Value
		for _, ins := range b.Instrs {
			for _, op := range ins.Operands(buf[:0]) {
				if *op != nil && inC[*op] {
					return false
				}
			}
		}
	}
	// a predecessor that reaches C through a conditional edge gets a forwarding block on that edge
	for pi, pr := range C.Preds {
		if _, ok := lastInstr(pr).(*ssa.Jump); ok {
			continue
		}
		if _, ok := lastInstr(pr).(*ssa.If); !ok {
			return false
		}
		E := newBlock(fn, "inl.edge")
		E.Instrs = []ssa.Instruction{newJump(E)}
		E.Preds = []*ssa.BasicBlock{pr}
		E.Succs = []*ssa.BasicBlock{C}
		done := false
		for si, sc := range pr.Succs {
			if sc == C && !done {
				// the si-th out-edge of pr corresponds to one entry of C.Preds; when both edges lead to C, entries are in edge order
				pr.Succs[si] = E
				done = true
			}
		}
		C.Preds[pi] = E
		var nblocks []*ssa.BasicBlock
		for _, b := range fn.Blocks {
			if b == C {
				nblocks = append(nblocks, E)
			}
			nblocks = append(nblocks, b)
		}
		fn.Blocks = nblocks
	}
	preds := append([]*ssa.BasicBlock(nil), C.Preds...)
	edgeVal := func(v ssa.Value, i int) ssa.Value {
		if ph, ok := v.(*ssa.Phi); ok && ph.Block() == C {
			return ph.Edges[i]
		}
		return v
	}
	switch t := term.(type) {
	case *ssa.Return:
		// duplicate the (pure) tail into every predecessor
		for i, pr := range preds {
			local := map[ssa.Value]ssa.Value{}
			pr.Instrs = pr.Instrs[:len(pr.Instrs)-1]
			mapv := func(v ssa.Value) ssa.Value {
				if nv, ok := local[v]; ok {
					return nv
				}
				return edgeVal(v, i)
			}
			var buf [16]*ssa.Value
			for _, ins := range rest {
				if bv, ok := ins.(ssa.Value); ok && ins != term {
					if b, isB := bv.Type().Underlying().(*types.Basic); isB && b.Info()&types.IsBoolean != 0 {
						if r := in.foldCond(fn, bv, C, i, pr, 0); r == "true" || r == "false" {
							local[bv] = ssa.NewConst(constant.MakeBool(r == "true"), bv.Type())
							continue
						}
					}
				}
				ni := cloneInstr(ins)
				setBlock(ni, pr)
				for _, op := range ni.Operands(buf[:0]) {
					if *op != nil {
						*op = mapv(*op)
					}
				}
				if ov, ok := ins.(ssa.Value); ok {
					local[ov] = ni.(ssa.Value)
				}
				if o, ok := in.cloneOf[ins]; ok {
					in.cloneOf[ni] = o
				}
				pr.Instrs = append(pr.Instrs, ni)
			}
			pr.Succs = nil
		}
		_ = t
		removeBlock(fn, C)
		return true
	case *ssa.If:
		if len(C.Succs) != 2 || C.Succs[0] == C.Succs[1] {
			return false
		}
		// classify every predecessor
		cls := make([]string, len(preds))
		any := false
		for i, pr := range preds {
			cls[i] = in.foldCond(fn, t.Cond, C, i, pr, 0)
			if cls[i] != "" {
				any = true
			}
		}
		if !any {
			return false
		}
		var grp [3][]int // 0: cond true, 1: cond false, 2: unknown
		for i, c := range cls {
			switch c {
			case "true":
				grp[0] = append(grp[0], i)
			case "false":
				grp[1] = append(grp[1], i)
			default:
				grp[2] = append(grp[2], i)
			}
		}
		// uses of C's phis outside C must be dominated by one of C's two out-edges (or be phi edges of the successors)
		type use struct {
			ins  ssa.Instruction
			op   *ssa.Value
			side int
		}
		var uses []use
		isPhiOfC := map[ssa.Value]bool{}
		for _, ph := range phis {
			isPhiOfC[ph] = true
		}
		for _, b := range fn.Blocks {
			if b == C {
				continue
			}
			for _, ins := range b.Instrs {
				var buf [16]*ssa.Value
				ops := ins.Operands(buf[:0])
				for oi, op := range ops {
					if *op == nil || !isPhiOfC[*op] {
						continue
					}
					at := b
					if uph, ok := ins.(*ssa.Phi); ok {
						at = b.Preds[oi]
						if at == C {
							// edge from C into a successor's phi
							side := 0
							if b == C.Succs[1] {
								side = 1
							}
							uses = append(uses, use{uph, op, side})
							continue
						}
					}
					switch {
					case edgeDominates(fn, C, 0, at):
						uses = append(uses, use{ins, op, 0})
					case edgeDominates(fn, C, 1, at):
						uses = append(uses, use{ins, op, 1})
					default:
						return false
					}
				}
			}
		}
		// build the landing blocks
		var land [2]*ssa.BasicBlock
		var landVal [2]map[ssa.Value]ssa.Value
		for side := 0; side < 2; side++ {
			members := grp[side]
			var lp []*ssa.BasicBlock
			for _, i := range members {
				lp = append(lp, preds[i])
			}
			if len(grp[2]) > 0 {
				lp = append(lp, C)
			}
			S := C.Succs[side]
			if len(lp) == 0 {
				// this side is never taken any more
				removePredEdge(S, C)
				continue
			}
			L := newBlock(fn, fmt.Sprintf("inl.land%d", side))
			land[side] = L
			L.Preds = lp
			L.Succs = []*ssa.BasicBlock{S}
			landVal[side] = map[ssa.Value]ssa.Value{}
			for _, ph := range phis {
				var edges []ssa.Value
				for _, i := range members {
					edges = append(edges, ph.Edges[i])
				}
				if len(grp[2]) > 0 {
					edges = append(edges, ph)
				}
				if len(edges) == 1 {
					landVal[side][ph] = edges[0]
				} else {
					np := newPhi(L, ph.Type(), edges, "inl.land")
					if o, ok := in.cloneOf[ph]; ok {
						in.cloneOf[np] = o
					}
					L.Instrs = append(L.Instrs, np)
					landVal[side][ph] = np
				}
			}
			// replay the continuation's own (movable) instructions on this side
			local := map[ssa.Value]ssa.Value{}
			for _, ins := range mid {
				ni := cloneInstr(ins)
				setBlock(ni, L)
				var buf [16]*ssa.Value
				for _, op := range ni.Operands(buf[:0]) {
					if *op == nil {
						continue
					}
					if nv, ok := local[*op]; ok {
						*op = nv
					} else if nv, ok := landVal[side][*op]; ok {
						*op = nv
					}
				}
				if ov, ok := ins.(ssa.Value); ok {
					local[ov] = ni.(ssa.Value)
				}
				if o, ok := in.cloneOf[ins]; ok {
					in.cloneOf[ni] = o
				}
				L.Instrs = append(L.Instrs, ni)
			}
			L.Instrs = append(L.Instrs, newJump(L))
			for i, pr := range S.Preds {
				if pr == C {
					S.Preds[i] = L
				}
			}
			for _, i := range members {
				preds[i].Succs = []*ssa.BasicBlock{L}
			}
			// facts: the tested operand is known on this side
			in.recordFacts(t.Cond, side == 0, landVal[side], L)
		}
		// rewrite uses
		for _, u := range uses {
			if land[u.side] == nil {
				continue // the using code became unreachable
			}
			if nv, ok := landVal[u.side][*u.op]; ok {
				*u.op = nv
			}
		}
		// C keeps the unknown predecessors only
		if len(grp[2]) == 0 {
			removeBlockNoSucc(fn, C)
		} else {
			var np []*ssa.BasicBlock
			for _, i := range grp[2] {
				np = append(np, preds[i])
			}
			for _, ph := range phis {
				var ne []ssa.Value
				for _, i := range grp[2] {
					ne = append(ne, ph.Edges[i])
				}
				ph.Edges = ne
			}
			C.Preds = np
			for side := 0; side < 2; side++ {
				if land[side] != nil {
					C.Succs[side] = land[side]
				}
			}
		}
		// insert landing blocks after C's position
		var nblocks []*ssa.BasicBlock
		for _, b := range fn.Blocks {
			if b == C {
				if len(grp[2]) > 0 {
					nblocks = append(nblocks, b)
				}
				for side := 0; side < 2; side++ {
					if land[side] != nil {
						nblocks = append(nblocks, land[side])
					}
				}
				continue
			}
			nblocks = append(nblocks, b)
		}
		fn.Blocks = nblocks
		// a landing block followed by a block that only it reaches is one straight line: merge them, so that a second
		// test on another result of the same helper (`v, ok, err := helper()`: err first, then ok) can be threaded too
		for side := 0; side < 2; side++ {
			L := land[side]
			if L == nil {
				continue
			}
			for len(L.Succs) == 1 {
				S := L.Succs[0]
				if S == L || S == fn.Blocks[0] || len(S.Preds) != 1 || S.Preds[0] != L || S == fn.Recover {
					break
				}
				if _, isPhi := S.Instrs[0].(*ssa.Phi); isPhi {
					break
				}
				L.Instrs = L.Instrs[:len(L.Instrs)-1] // drop the jump
				for _, ins := range S.Instrs {
					setBlock(ins, L)
					L.Instrs = append(L.Instrs, ins)
				}
				L.Succs = S.Succs
				for _, ss := range S.Succs {
					for i, pr := range ss.Preds {
						if pr == S {
							ss.Preds[i] = L
						}
					}
				}
				if f := in.facts[S]; f != nil {
					if in.facts[L] == nil {
						in.facts[L] = map[ssa.Value]string{}
					}
					for k, v := range f {
						in.facts[L][k] = v
					}
				}
				removeBlock(fn, S)
			}
			if len(L.Preds) > 1 {
				in.conts[L] = true
			}
		}
		invalidateDom(fn)
		return true
	}
	return false
}

// foldCond evaluates the branch condition of continuation block C for the path entering through predecessor i.
func (in *inliner) foldCond(fn *ssa.Function, v ssa.Value, C *ssa.BasicBlock, i int, pr *ssa.BasicBlock, depth int) string {
	if depth > 6 {
		return ""
	}
	if ph, ok := v.(*ssa.Phi); ok && ph.Block() == C {
		return in.classify(fn, ph.Edges[i], pr, 0)
	}
	if ins, ok := v.(ssa.Instruction); ok && ins.Block() == C {
		switch t := v.(type) {
		case *ssa.UnOp:
			if t.Op == token.NOT {
				switch in.foldCond(fn, t.X, C, i, pr, depth+1) {
				case "true":
					return "false"
				case "false":
					return "true"
				}
			}
			return ""
		case *ssa.BinOp:
			if r := foldIntCompare(t, func(v ssa.Value) ssa.Value {
				if ph, ok := v.(*ssa.Phi); ok && ph.Block() == C {
					return ph.Edges[i]
				}
				return v
			}); r != "" {
				return r
			}
			var x ssa.Value
			if isNilConst(t.Y) {
				x = t.X
			} else if isNilConst(t.X) {
				x = t.Y
			}
			if x == nil {
				return ""
			}
			c := in.foldCond(fn, x, C, i, pr, depth+1)
			switch c {
			case "nil":
				if t.Op == token.EQL {
					return "true"
				}
				return "false"
			case "nonnil":
				if t.Op == token.EQL {
					return "false"
				}
				return "true"
			}
			return ""
		case *ssa.ChangeInterface:
			return in.foldCond(fn, t.X, C, i, pr, depth+1)
		case *ssa.ChangeType:
			return in.foldCond(fn, t.X, C, i, pr, depth+1)
		case *ssa.MakeInterface:
			return "nonnil"
		}
		return ""
	}
	return in.classify(fn, v, pr, 0)
}

// recordFacts notes what the (removed) branch established about its operand for code dominated by landing block L.
func (in *inliner) recordFacts(cond ssa.Value, taken bool, landVal map[ssa.Value]ssa.Value, L *ssa.BasicBlock) {
	for {
		if u, ok := cond.(*ssa.UnOp); ok && u.Op == token.NOT {
			cond, taken = u.X, !taken
			continue
		}
		break
	}
	set := func(v ssa.Value, fact string) {
		if nv, ok := landVal[v]; ok {
			v = nv
		}
		if in.facts[L] == nil {
			in.facts[L] = map[ssa.Value]string{}
		}
		in.facts[L][v] = fact
	}
	if bo, ok := cond.(*ssa.BinOp); ok && (bo.Op == token.EQL || bo.Op == token.NEQ) {
		var x ssa.Value
		if isNilConst(bo.Y) {
			x = bo.X
		} else if isNilConst(bo.X) {
			x = bo.Y
		}
		if x != nil {
			isNil := (bo.Op == token.EQL) == taken
			if isNil {
				set(x, "nil")
			} else {
				set(x, "nonnil")
			}
		}
		return
	}
	if taken {
		set(cond, "true")
	} else {
		set(cond, "false")
	}
}

// removePredEdge deletes predecessor pr of block s together with the matching phi edges.
func removePredEdge(s, pr *ssa.BasicBlock) {
	for i := 0; i < len(s.Preds); i++ {
		if s.Preds[i] != pr {
			continue
		}
		s.Preds = append(s.Preds[:i:i], s.Preds[i+1:]...)
		for _, ins := range s.Instrs {
			ph, ok := ins.(*ssa.Phi)
			if !ok {
				break
			}
			ph.Edges = append(ph.Edges[:i:i], ph.Edges[i+1:]...)
		}
		i--
	}
}

// removeBlock removes a block that has no successors and whose predecessors were already redirected.
func removeBlock(fn *ssa.Function, b *ssa.BasicBlock) {
	var nb []*ssa.BasicBlock
	for _, x := range fn.Blocks {
		if x != b {
			nb = append(nb, x)
		}
	}
	fn.Blocks = nb
}

func removeBlockNoSucc(fn *ssa.Function, b *ssa.BasicBlock) { b.Preds = nil }

// removeUnreachable drops blocks that can no longer be reached and simplifies single-edge phis.
func removeUnreachable(fn *ssa.Function) {
	seen := map[*ssa.BasicBlock]bool{}
	var st []*ssa.BasicBlock
	push := func(b *ssa.BasicBlock) {
		if b != nil && !seen[b] {
			seen[b] = true
			st = append(st, b)
		}
	}
	push(fn.Blocks[0])
	push(fn.Recover)
	for len(st) > 0 {
		c := st[len(st)-1]
		st = st[:len(st)-1]
		for _, s := range c.Succs {
			push(s)
		}
	}
	var nb []*ssa.BasicBlock
	for _, b := range fn.Blocks {
		if seen[b] {
			nb = append(nb, b)
			continue
		}
		for _, s := range b.Succs {
			if seen[s] {
				removePredEdge(s, b)
			}
		}
	}
	fn.Blocks = nb
	// phis with a single edge: forward the value
	for _, b := range fn.Blocks {
		keep := b.Instrs[:0]
		for _, ins := range b.Instrs {
			if ph, ok := ins.(*ssa.Phi); ok && len(ph.Edges) == 1 && len(b.Preds) == 1 {
				replaceUses(fn.Blocks, ph, ph.Edges[0])
				continue
			}
			keep = append(keep, ins)
		}
		b.Instrs = keep
	}
	invalidateDom(fn)
}

func rebuildReferrers(fn *ssa.Function) {
	reset := func(v ssa.Value) {
		if r := v.Referrers(); r != nil {
			*r = nil
		}
	}
	for _, prm := range fn.Params {
		reset(prm)
	}
	for _, fv := range fn.FreeVars {
		reset(fv)
	}
	for _, b := range fn.Blocks {
		for _, ins := range b.Instrs {
			if v, ok := ins.(ssa.Value); ok {
				reset(v)
			}
		}
	}
	var buf [16]*ssa.Value
	for _, b := range fn.Blocks {
		for _, ins := range b.Instrs {
			for _, op := range ins.Operands(buf[:0]) {
				if *op == nil {
					continue
				}
				if r := (*op).Referrers(); r != nil {
					*r = append(*r, ins)
				}
			}
		}
	}
}

// IsClone reports whether an instruction was copied into its function from an inlined helper.
func (p *Program) IsClone(ins ssa.Instruction) bool {
	if p.inl == nil {
		return false
	}
	_, ok := p.inl.cloneOf[ins]
	return ok
}

// OriginFn returns the function whose source an instruction belongs to.
func (p *Program) OriginFn(ins ssa.Instruction) *ssa.Function {
	if p.inl != nil {
		if o, ok := p.inl.cloneOf[ins]; ok {
			return o
		}
	}
	return ins.Parent()
}

// Absorbed reports whether fn is a helper that the normal form has inlined at every place it is used: nothing refers
// to it any more (no remaining call, no function value), so what it does is attributed to the functions it was inlined into.
func (p *Program) Absorbed(fn *ssa.Function) bool {
	if p.inl == nil || len(p.inl.callers[fn]) == 0 {
		return false
	}
	if p.inl.referenced == nil {
		ref := map[*ssa.Function]bool{}
		var buf [16]*ssa.Value
		for f := range p.AllFuncs {
			if !inTeleport(f) || f.Synthetic != "" {
				continue // (method wrappers and thunks are not uses)
			}
			for _, b := range f.Blocks {
				for _, ins := range b.Instrs {
					if p.IsClone(ins) {
						continue
					}
					for _, op := range ins.Operands(buf[:0]) {
						if g, ok := (*op).(*ssa.Function); ok {
							ref[g] = true
							ref[p.unwrap(g)] = true
						}
					}
				}
			}
		}
		p.inl.referenced = ref
	}
	return !p.inl.referenced[fn]
}

// Owners names the functions to which the code of fn is attributed: fn itself (its outermost enclosing function), or,
// for an absorbed helper, the owners of the functions it was inlined into.
func (p *Program) Owners(fn *ssa.Function) []string {
	set := map[string]bool{}
	var walk func(f *ssa.Function, d int)
	walk = func(f *ssa.Function, d int) {
		f = rootFn(f)
		if d < 6 && p.Absorbed(f) {
			for _, s := range p.inl.callers[f] {
				if s.Caller.Synthetic != "" {
					continue // method wrapper: not a use by itself (a use of the wrapper shows up as a reference)
				}
				walk(s.Caller, d+1)
			}
			return
		}
		set[funcName(f)] = true
	}
	walk(fn, 0)
	var out []string
	for n := range set {
		out = append(out, n)
	}
	sort.Strings(out)
	return out
}

// OwnerFns: like Owners, as functions.
func (p *Program) OwnerFns(fn *ssa.Function) []*ssa.Function {
	set := map[*ssa.Function]bool{}
	var walk func(f *ssa.Function, d int)
	walk = func(f *ssa.Function, d int) {
		f = rootFn(f)
		if d < 6 && p.Absorbed(f) {
			for _, s := range p.inl.callers[f] {
				if s.Caller.Synthetic != "" {
					continue
				}
				walk(s.Caller, d+1)
			}
			return
		}
		set[f] = true
	}
	walk(fn, 0)
	var out []*ssa.Function
	for f := range set {
		out = append(out, f)
	}
	sort.Slice(out, func(i, j int) bool { return funcName(out[i]) < funcName(out[j]) })
	return out
}

func isConstVal(v ssa.Value) bool { _, ok := v.(*ssa.Const); return ok }

// foldNilBranches: a branch on `e == nil` / `e != nil` where e is, structurally, a freshly constructed error
// (errors.New, fmt.Errorf, Wrap of a sentinel …: never nil) is decided. Such branches appear when a helper that returns
// an error handed to it as an argument (`return failure`) was split into "if failure != nil" and inlined at a call that
// passes a constructed error.
func (in *inliner) foldNilBranches(fn *ssa.Function) bool {
	if os.Getenv("XLINT_NO_NILFOLD") != "" {
		return false
	}
	changed := false
	for _, b := range fn.Blocks {
		iff, ok := lastInstr(b).(*ssa.If)
		if !ok || len(b.Succs) != 2 || b.Succs[0] == b.Succs[1] {
			continue
		}
		bo, ok := iff.Cond.(*ssa.BinOp)
		if !ok || (bo.Op != token.EQL && bo.Op != token.NEQ) {
			continue
		}
		var x ssa.Value
		if isNilConst(bo.Y) {
			x = bo.X
		} else if isNilConst(bo.X) {
			x = bo.Y
		}
		call, isCall := x.(*ssa.Call)
		if !isCall || !isErrorType(call.Type()) {
			continue
		}
		k := in.classify(fn, call, b, 0)
		if k != "nonnil" {
			continue
		}
		taken := 0 // e != nil
		if bo.Op == token.EQL {
			taken = 1
		}
		notTaken := b.Succs[1-taken]
		keep := b.Succs[taken]
		b.Instrs[len(b.Instrs)-1] = newJump(b)
		b.Succs = []*ssa.BasicBlock{keep}
		removePredEdge(notTaken, b)
		changed = true
	}
	if changed {
		invalidateDom(fn)
	}
	return changed
}
