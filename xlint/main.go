package main

import (
	"flag"
	"fmt"
	"os"
	"sort"
	"strconv"
	"strings"

	"golang.org/x/tools/go/ssa"
)

type propFn func(c *Check)

var props = map[string]propFn{}

func register(id string, f propFn) { props[id] = f }

func main() {
	repo := flag.String("repo", "/repo", "repository working tree")
	prop := flag.String("prop", "", "property id (C01..C20) or 'all'")
	tier := flag.String("tier", "quick", "quick|thorough")
	dump := flag.String("dump", "", "dump canonical analysis of a function spec (comma separated)")
	dumpCalls := flag.String("calls", "", "with -dump: also list calls whose callee name contains this substring ('*' = all)")
	writes := flag.Bool("writes", false, "list every KVStore Set/Delete site in scope with its key shape")
	reads := flag.Bool("reads", false, "list every KVStore read site in scope with its key shape")
	shapes := flag.String("shapes", "", "print the key shape of the given function specs (comma separated)")
	width := flag.Int("w", 400, "truncate dump/gen lines to this width")
	_ = width
	seedTest := flag.String("seedtest", "", "development: run only the seeds of the given properties (comma separated, or 'all') and print their status")
	frz := flag.String("freeze", "", "freeze a picks file into a JSON table (printed on stdout)")
	guards := flag.String("guards", "", "list guards (line: text) of the given function specs, compact")
	gen := flag.String("gen", "", "print FnSpec skeletons for the given function specs (comma separated); -calls filters effects")
	inlStats := flag.Bool("inlstats", false, "development: list, per function, the helpers inlined into it")
	ssaOut := flag.String("ssa", "", "development: print the normalised SSA of the given function specs")
	noEv := flag.Bool("no-evidence", false, "do not write evidence files")
	flag.Parse()
	if t := os.Getenv("VERIF_TIER"); t != "" && *tier == "" {
		*tier = t
	}
	if os.Getenv("VERIF_NO_EVIDENCE") != "" {
		*noEv = true
	}
	seed := 0
	if s := os.Getenv("VERIF_SEED"); s != "" {
		seed, _ = strconv.Atoi(s)
	}
	defer func() {
		if r := recover(); r != nil {
			fmt.Printf("CHECKER-FAILURE: panic in checker: %v\n", r)
			panic(r)
		}
	}()
	p := loadProgram(*repo, nil, nil)
	if *writes {
		for _, w := range p.StoreWrites() {
			fmt.Printf("%-6s %-55s %s   @%s\n", w.Op, funcName(w.Fn), w.Full(p), p.Pos(w.Pos))
		}
		return
	}
	if *reads {
		for _, r := range p.StoreReads() {
			fmt.Printf("%-15s %-55s %s   @%s\n", r.Op, funcName(r.Fn), r.Full, p.Pos(r.Pos))
		}
		return
	}
	if *shapes != "" {
		for _, spec := range strings.Split(*shapes, ",") {
			fmt.Printf("%s = %s\n", spec, p.ShapeOfFunc(p.Func(spec)))
		}
		return
	}
	if *seedTest != "" {
		for _, s := range seeds {
			if *seedTest != "all" && !strings.Contains(","+*seedTest+",", ","+s.Prop+",") {
				continue
			}
			base := violationKeys(runProp(p, s.Prop, "quick", false))
			one := seeds[:0:0]
			one = append(one, s)
			saved := seeds
			seeds = one
			extra, _ := thoroughSeedsOnly(*repo, s.Prop, base)
			seeds = saved
			st := ""
			for _, r := range extra["results"].([]seedResult) {
				st = r.Status + " " + r.FiredBy
			}
			fmt.Printf("%s %-70s %s\n", s.Prop, s.Name, trunc(st))
		}
		return
	}
	if *frz != "" {
		freeze(p, *frz)
		return
	}
	if ap := os.Getenv("XLINT_AUTOPICK"); ap != "" {
		for _, spec := range strings.Split(ap, ",") {
			fn := p.Func(spec)
			fmt.Printf("fn %s\n", spec)
			gs := p.FA(fn).OwnGuards()
			sort.Slice(gs, func(i, j int) bool { return gs[i].If.Block().Index < gs[j].If.Block().Index })
			seen := map[int]bool{}
			for _, g := range gs {
				pos := g.If.Cond.Pos()
				if !pos.IsValid() {
					pos = guardPos(g)
				}
				l := p.Fset.Position(pos).Line
				if seen[l] {
					continue
				}
				seen[l] = true
				s := g.Cond.String()
				if len(s) > 90 {
					s = s[:90]
				}
				fmt.Printf("g %d %s\n", l, strings.ReplaceAll(s, " ", "_"))
			}
			fmt.Println("s")
		}
		return
	}
	if *guards != "" {
		for _, spec := range strings.Split(*guards, ",") {
			fn := p.Func(spec)
			fmt.Printf("## %s (%s)\n", spec, p.Pos(fn.Pos()))
			gs := p.FA(fn).OwnGuards()
			sort.Slice(gs, func(i, j int) bool { return gs[i].If.Block().Index < gs[j].If.Block().Index })
			for _, g := range gs {
				pos := g.If.Cond.Pos()
				if !pos.IsValid() {
					pos = guardPos(g)
				}
				s := g.String()
				if len(s) > *width {
					s = s[:*width] + "…"
				}
				fmt.Printf("  L%d  %s\n", p.Fset.Position(pos).Line, s)
				if os.Getenv("XLINT_GUARD_INSTANCES") != "" {
					for _, v := range p.FA(fn).guardInstances(g) {
						fmt.Printf("      inst  %s\n", v.String())
					}
				}
			}
		}
		return
	}
	if *gen != "" {
		for _, spec := range strings.Split(*gen, ",") {
			genSpec(p, spec, *dumpCalls)
		}
		return
	}
	if *inlStats && p.inl != nil {
		var names []string
		for fn, l := range p.inl.into {
			names = append(names, funcName(fn)+" <- "+strings.Join(l, ", "))
		}
		sort.Strings(names)
		for _, n := range names {
			fmt.Println(n)
		}
		fmt.Printf("%d call sites inlined, %d continuations threaded\n", p.inl.nSites, p.inl.nThreaded)
		return
	}
	if *ssaOut != "" {
		for _, spec := range strings.Split(*ssaOut, ",") {
			p.Func(spec).WriteTo(os.Stdout)
		}
		return
	}
	if *dump != "" {
		for _, spec := range strings.Split(*dump, ",") {
			dumpFunc(p, p.Func(spec), *dumpCalls)
		}
		return
	}
	var ids []string
	if *prop == "all" {
		for id := range props {
			ids = append(ids, id)
		}
		sort.Strings(ids)
	} else {
		for _, id := range strings.Split(*prop, ",") {
			if props[id] == nil {
				checkerFail("unknown property %q", id)
			}
			ids = append(ids, id)
		}
	}
	if len(ids) == 0 {
		checkerFail("no property given")
	}
	rc := 0
	for _, id := range ids {
		c := newCheck(p, id, *tier)
		props[id](c)
		var tfail []string
		if *tier == "thorough" {
			extra, fails := thorough(*repo, p, id, violationKeys(c))
			for k, v := range extra {
				c.Extra[k] = v
			}
			tfail = fails
		}
		r := c.Finish(seed, !*noEv)
		if len(tfail) > 0 {
			for _, f := range tfail {
				fmt.Printf("CHECKER-FAILURE: property=%s thorough tier: %s\n", id, f)
			}
			if r == 0 {
				r = 2
			}
		}
		if r > rc {
			if rc != 1 { // violation (1) dominates checker failure (2) only if no failure... keep max severity ordering: 1 stays 1
				rc = r
			}
		}
		if r == 1 {
			rc = 1
		}
	}
	os.Exit(rc)
}

func dumpFunc(p *Program, fn *ssa.Function, callFilter string) {
	fmt.Printf("=== %s  (%s)\n", funcName(fn), p.Pos(fn.Pos()))
	for i, prm := range fn.Params {
		fmt.Printf("  $%d = %s %s\n", i, prm.Name(), typeStr(prm.Type()))
	}
	a := p.FA(fn)
	fmt.Println("-- guards:")
	for _, g := range a.OwnGuards() {
		fmt.Printf("  %s   @%s\n", g.String(), p.Pos(g.If.Cond.Pos()))
	}
	fmt.Println("-- calls:")
	for _, cs := range p.CallsIn(fn) {
		if callFilter == "" || (callFilter != "*" && !strings.Contains(cs.Name, callFilter)) {
			continue
		}
		args := p.ArgExprs(cs)
		ss := make([]string, len(args))
		for i, e := range args {
			ss[i] = e.String()
		}
		var conds []string
		for s := range a.PathCondStrings(cs.Ins.Block()) {
			conds = append(conds, s)
		}
		sort.Strings(conds)
		fmt.Printf("  %s(%s)\n      @%s under {%s}\n", cs.Name, strings.Join(ss, ", "), p.Pos(cs.Ins.Pos()), strings.Join(conds, " ; "))
	}
	fmt.Println("-- returns:")
	for _, b := range fn.Blocks {
		if len(b.Instrs) == 0 {
			continue
		}
		if r, ok := b.Instrs[len(b.Instrs)-1].(*ssa.Return); ok {
			var rs []string
			for i := range r.Results {
				rs = append(rs, a.X.E(RetVal(r, i)).String())
			}
			var conds []string
			for s := range a.PathCondStrings(b) {
				conds = append(conds, s)
			}
			sort.Strings(conds)
			fmt.Printf("  [%s] return %s\n      @%s under {%s}\n", a.exit[b.Index], strings.Join(rs, ", "), p.Pos(r.Pos()), strings.Join(conds, " ; "))
		}
	}
	fmt.Println("-- stores:")
	for _, b := range fn.Blocks {
		for _, ins := range b.Instrs {
			if st, ok := ins.(*ssa.Store); ok {
				if _, isAlloc := st.Addr.(*ssa.Alloc); isAlloc {
					continue
				}
				fmt.Printf("  %s := %s   @%s\n", a.X.E(st.Addr), a.X.E(st.Val), p.Pos(st.Pos()))
			}
		}
	}
}
