package main

import (
	"go/types"

	"golang.org/x/tools/go/ssa"
)

// lossyConv classifies an integer-to-integer conversion: "" when every source value is kept (widening, or same
// width and signedness, or a signed source that is provably non-negative going to an unsigned type at least as
// wide), otherwise a tag "dst←src" — the conversion can change the number (truncation, sign flip, wrap of a
// negative) and is therefore part of what is computed, not of how it is spelled.
func lossyConv(v *ssa.Convert) string {
	src, ok1 := v.X.Type().Underlying().(*types.Basic)
	dst, ok2 := v.Type().Underlying().(*types.Basic)
	if !ok1 || !ok2 || src.Info()&types.IsInteger == 0 || dst.Info()&types.IsInteger == 0 {
		return ""
	}
	sb, ss := intBits(src), src.Info()&types.IsUnsigned == 0
	db, ds := intBits(dst), dst.Info()&types.IsUnsigned == 0
	switch {
	case ss == ds && db >= sb:
		return ""
	case !ss && ds && db > sb: // unsigned into a wider signed
		return ""
	case ss && !ds && db >= sb-1 && nonNegative(v.X, 0):
		return ""
	case ss && ds && db < sb && nonNegative(v.X, 0) && false:
		return ""
	}
	return dst.Name() + "←" + src.Name()
}

func intBits(b *types.Basic) int {
	switch b.Kind() {
	case types.Int8, types.Uint8:
		return 8
	case types.Int16, types.Uint16:
		return 16
	case types.Int32, types.Uint32:
		return 32
	}
	return 64
}

// nonNegative: the signed value cannot be negative: len/cap, a non-negative constant, a range index, a widening of
// an unsigned value, or a sum/product/quotient/remainder/shift of such values.
func nonNegative(v ssa.Value, depth int) bool {
	if depth > 6 {
		return false
	}
	switch t := v.(type) {
	case *ssa.Const:
		return t.Value != nil && t.Int64() >= 0 && !t.IsNil()
	case *ssa.Call:
		if b, ok := t.Call.Value.(*ssa.Builtin); ok {
			return b.Name() == "len" || b.Name() == "cap" || b.Name() == "copy"
		}
		return false
	case *ssa.Convert:
		if src, ok := t.X.Type().Underlying().(*types.Basic); ok && src.Info()&types.IsInteger != 0 {
			if src.Info()&types.IsUnsigned != 0 {
				dst, _ := t.Type().Underlying().(*types.Basic)
				return dst != nil && intBits(dst) > intBits(src)
			}
			return lossyConv(t) == "" && nonNegative(t.X, depth+1)
		}
		return false
	case *ssa.BinOp:
		if rangeIndex(t) {
			return true
		}
		switch t.Op.String() {
		case "+", "*", "/", "%", ">>", "&":
			return nonNegative(t.X, depth+1) && nonNegative(t.Y, depth+1)
		}
		return false
	case *ssa.Phi:
		for _, e := range t.Edges {
			if e == v {
				continue
			}
			if add, ok := e.(*ssa.BinOp); ok && add.Op.String() == "+" && add.X == v && nonNegative(add.Y, depth+1) {
				continue
			}
			if !nonNegative(e, depth+1) {
				return false
			}
		}
		return true
	case *ssa.Extract:
		if _, ok := t.Tuple.(*ssa.Next); ok && t.Index == 1 {
			return true // range key over a slice/string
		}
	}
	return false
}
