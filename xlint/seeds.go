package main

const (
	fPacket  = "x/xibc/core/packet/keeper/packet.go"
	fMsgSrv  = "x/xibc/keeper/msg_server.go"
	fPkEvm   = "x/xibc/core/packet/keeper/evm.go"
	fPkHooks = "x/xibc/core/packet/keeper/evm_hooks.go"
	fPkKeep  = "x/xibc/core/packet/keeper/keeper.go"
	fHostKey = "x/xibc/core/host/keys.go"
	fClient  = "x/xibc/core/client/keeper/client.go"
	fClKeep  = "x/xibc/core/client/keeper/keeper.go"
	fRelayer = "x/xibc/core/client/keeper/relayer.go"
	fTmUpd   = "x/xibc/clients/light-clients/tendermint/types/update.go"
	fTmCS    = "x/xibc/clients/light-clients/tendermint/types/client_state.go"
	fTmStore = "x/xibc/clients/light-clients/tendermint/types/store.go"
	fEthCS   = "x/xibc/clients/light-clients/eth/types/client_state.go"
	fBscCS   = "x/xibc/clients/light-clients/bsc/types/client_state.go"
	fBscHdr  = "x/xibc/clients/light-clients/bsc/types/header.go"
	fBscUpd  = "x/xibc/clients/light-clients/bsc/types/update.go"
	fBscSnap = "x/xibc/clients/light-clients/bsc/types/snapshot.go"
	fEthHdr  = "x/xibc/clients/light-clients/eth/types/header.go"
	fEthUpd  = "x/xibc/clients/light-clients/eth/types/update.go"
	fEthVer  = "x/xibc/clients/light-clients/eth/types/verify_header.go"
	fAggMsg  = "x/aggregate/keeper/msg_server.go"
	fAggMint = "x/aggregate/keeper/mint.go"
	fAggProp = "x/aggregate/keeper/proposals.go"
	fAggTP   = "x/aggregate/keeper/token_pairs.go"
	fAggHook = "x/aggregate/keeper/ibc_hook.go"
	fAggMW   = "x/aggregate/ibc_middleware.go"
	fRvAbci  = "x/rvesting/module/abci.go"
	fRvKeep  = "x/rvesting/keeper/keeper.go"
	fRvParam = "x/rvesting/types/param.go"
	fPkEvmT  = "x/xibc/core/packet/types/evm.go"
	fStkHook = "adapter/staking/hooks.go"
	fStkHand = "adapter/staking/handler.go"
	fGovHand = "adapter/gov/handler.go"
	fAdExec  = "adapter/common/execute.go"
	fAdBank  = "adapter/bank/keeper.go"
	fMerkle  = "x/xibc/core/commitment/types/merkle.go"
	fTssCS   = "x/xibc/clients/tss-client/types/client_state.go"
	fTssHdr  = "x/xibc/clients/tss-client/types/header.go"
	fEthCons = "x/xibc/clients/light-clients/eth/types/consensus_state.go"
)

// Seeded faults for the thorough tier's self-validation. One edit each; Old must occur exactly once in File.
var seeds = []seed{
	// C01
	{Prop: "C01", Name: "receipt written under swapped (dst,src)", File: fPacket, Expect: "C01/",
		Old: "k.SetPacketReceipt(ctx, packet.GetSrcChain(), packet.GetDstChain(), packet.GetSequence())", New: "k.SetPacketReceipt(ctx, packet.GetDstChain(), packet.GetSrcChain(), packet.GetSequence())"},
	{Prop: "C01", Name: "found-edge of the receipt lookup no longer rejects", File: fPacket, Expect: "C01/",
		Old: "packet.GetSequence()); found {\n\t\treturn sdkerrors.Wrapf(\n\t\t\ttypes.ErrInvalidPacket,\n\t\t\t\"packet sequence (%d) already has been received\", packet.GetSequence(),\n\t\t)\n\t}", New: "packet.GetSequence()); found {\n\t\tk.Logger(ctx).Info(\"duplicate receive\")\n\t}"},
	{Prop: "C01", Name: "receipt key drops the source chain", File: fHostKey, Expect: "C01/",
		Old: "return fmt.Sprintf(\"%s/%s/%s\", KeyPacketReceiptPrefix, packetPath(srcChain, dstChain), KeySequencePrefix)", New: "return fmt.Sprintf(\"%s/%s/%s\", KeyPacketReceiptPrefix, packetPath(dstChain, dstChain), KeySequencePrefix)"},
	{Prop: "C01", Name: "acknowledging deletes the receipt", File: fPkKeep, Expect: "C01/",
		Old: "store.Delete(host.PacketCommitmentKey(srcChain, dstChain, sequence))", New: "store.Delete(host.PacketCommitmentKey(srcChain, dstChain, sequence))\n\tstore.Delete(host.PacketReceiptKey(srcChain, dstChain, sequence))"},
	{Prop: "C01", Name: "callback runs although the keeper rejected the receive", File: fMsgSrv, Expect: "C01/",
		Old: "\tif err := k.PacketKeeper.RecvPacket(ctx, msg); err != nil {\n\t\treturn nil, sdkerrors.Wrap(err, \"receive packet verification failed\")\n\t}", New: "\tif err := k.PacketKeeper.RecvPacket(ctx, msg); err != nil {\n\t\tk.PacketKeeper.Logger(ctx).Error(\"receive packet verification failed\", \"err\", err.Error())\n\t}"},
	// C02
	{Prop: "C02", Name: "receive verified with the destination chain's client", File: fPacket, Expect: "C02/",
		Old: "\tfromChain := packet.GetSrcChain()\n\n\tclientState, found := k.clientKeeper.GetClientState(ctx, fromChain)", New: "\tfromChain := packet.GetDstChain()\n\n\tclientState, found := k.clientKeeper.GetClientState(ctx, fromChain)"},
	{Prop: "C02", Name: "ack accepted without comparing the stored commitment", File: fPacket, Expect: "C02/",
		Old: "if !bytes.Equal(commitment, packetCommitment) {", New: "if len(commitment) == 0 && !bytes.Equal(commitment, packetCommitment) {"},
	{Prop: "C02", Name: "tendermint ack verified on the commitment path", File: fTmCS, Expect: "C02/",
		Old: "ackPath := commitmenttypes.NewMerklePath(host.PacketAcknowledgementPath(srcChain, dstChain, sequence))", New: "ackPath := commitmenttypes.NewMerklePath(host.PacketCommitmentPath(srcChain, dstChain, sequence))"},
	{Prop: "C02", Name: "chained proof: final root comparison dropped", File: fMerkle, Expect: "C02/",
		Old: "if !bytes.Equal(root, subroot) {", New: "if len(root) == 0 && !bytes.Equal(root, subroot) {"},
	{Prop: "C02", Name: "TSS accepts any proof of the right length", File: fTssCS, Expect: "C02/",
		Old: "commitment []byte,\n) error {\n\tif string(proof) != cs.TssAddress {", New: "commitment []byte,\n) error {\n\tif len(proof) != len(cs.TssAddress) {"},
	{Prop: "C02", Name: "signer used as proof for every client type", File: fPacket, Expect: "C02/",
		Old: "\tproof := msg.ProofCommitment\n\tif clientState.ClientType() == exported.TSS {\n\t\tproof = []byte(msg.Signer)\n\t}", New: "\tproof := msg.ProofCommitment\n\tif clientState.ClientType() != \"\" {\n\t\tproof = []byte(msg.Signer)\n\t}"},
	// C03
	{Prop: "C03", Name: "callback back on the outer context", File: fMsgSrv, Expect: "C03/",
		Old: "k.PacketKeeper.CallPacket(cctx, \"onRecvPacket\", packet)", New: "k.PacketKeeper.CallPacket(ctx, \"onRecvPacket\", packet)"},
	{Prop: "C03", Name: "cache flushed on the failure branch", File: fMsgSrv, Expect: "C03/",
		Old: "\t\t\tif err := k.PacketKeeper.WriteAcknowledgement(ctx, &packet, errAckBz); err != nil {\n\t\t\t\treturn nil, err\n\t\t\t}\n\t\t\treturn &packettypes.MsgRecvPacketResponse{}, nil\n\t\t}\n\t\t// call onRecvPacket end", New: "\t\t\tif err := k.PacketKeeper.WriteAcknowledgement(ctx, &packet, errAckBz); err != nil {\n\t\t\t\treturn nil, err\n\t\t\t}\n\t\t\twrite()\n\t\t\treturn &packettypes.MsgRecvPacketResponse{}, nil\n\t\t}\n\t\t// call onRecvPacket end"},
	{Prop: "C03", Name: "hook failure swallowed in CallEVMWithData", File: fPkEvm, Expect: "C03/",
		Old: "\t\t\tres.VmError = evmtypes.ErrPostTxProcessing.Error()\n", New: ""},
	{Prop: "C03", Name: "ack status swapped (success records failure)", File: fMsgSrv, Expect: "C03/",
		Old: "success := ack.Code == 0", New: "success := ack.Code != 0"},
	{Prop: "C03", Name: "error acknowledgement carries code 0", File: fMsgSrv, Expect: "C03/",
		Old: "packettypes.NewAcknowledgement(1, []byte{}, \"receive packet callback failed\", relayer, packet.FeeOption)", New: "packettypes.NewAcknowledgement(0, []byte{}, \"receive packet callback failed\", relayer, packet.FeeOption)"},
	// C04
	{Prop: "C04", Name: "sequence check loosened to <", File: fPacket, Expect: "C04/",
		Old: "if packet.GetSequence() != nextSequenceSend {", New: "if packet.GetSequence() < nextSequenceSend {"},
	{Prop: "C04", Name: "contract counter gets the packet sequence instead of the stored next", File: fPacket, Expect: "C04/",
		Old: "k.CallPacket(ctx, \"setSequence\", packet.GetDstChain(), nextSequenceSend)", New: "k.CallPacket(ctx, \"setSequence\", packet.GetDstChain(), packet.GetSequence())"},
	{Prop: "C04", Name: "commitment stored under the incremented counter", File: fPacket, Expect: "C04/",
		Old: "k.SetPacketCommitment(ctx, packet.GetSrcChain(), packet.GetDstChain(), packet.GetSequence(), commitment)\n\n\tpacketBytes", New: "k.SetPacketCommitment(ctx, packet.GetSrcChain(), packet.GetDstChain(), nextSequenceSend, commitment)\n\n\tpacketBytes"},
	{Prop: "C04", Name: "hook skips a failing send instead of reverting", File: fPkHooks, Expect: "C04/",
		Old: "\t\t\t\t\"error\", err.Error(),\n\t\t\t)\n\t\t\treturn err\n\t\t}\n\t}\n\n\treturn nil", New: "\t\t\t\t\"error\", err.Error(),\n\t\t\t)\n\t\t\tcontinue\n\t\t}\n\t}\n\n\treturn nil"},
	{Prop: "C04", Name: "hook accepts PacketSent from any contract", File: fPkHooks, Expect: "C04/",
		Old: "\t\tif log.Address != packetcontract.PacketContractAddress {\n\t\t\tcontinue\n\t\t}\n", New: ""},
	// C05
	{Prop: "C05", Name: "existing acknowledgement overwritten", File: fPacket, Expect: "C05/",
		Old: "\t) {\n\t\treturn types.ErrAcknowledgementExists\n\t}", New: "\t) {\n\t\tk.Logger(ctx).Info(\"ack exists\")\n\t}"},
	{Prop: "C05", Name: "commitment not deleted after a verified ack", File: fPacket, Expect: "C05/",
		Old: "\tk.deletePacketCommitment(ctx, packet.GetSrcChain(), packet.GetDstChain(), packet.GetSequence())\n", New: ""},
	{Prop: "C05", Name: "no ack written for an unknown destination", File: fMsgSrv, Expect: "C05/",
		Old: "\t\tif err := k.PacketKeeper.WriteAcknowledgement(ctx, &packet, errAckBz); err != nil {\n\t\t\treturn nil, err\n\t\t}\n\t\treturn &packettypes.MsgRecvPacketResponse{}, nil\n\t}\n\n\twrite()", New: "\t\t_ = errAckBz\n\t\treturn &packettypes.MsgRecvPacketResponse{}, nil\n\t}\n\n\twrite()"},
	{Prop: "C05", Name: "ack stored under the destination's own next sequence", File: fPacket, Expect: "C05/",
		Old: "\t\tpacket.GetSequence(),\n\t\ttypes.CommitAcknowledgement(acknowledgement),", New: "\t\tpacket.GetSequence()+1,\n\t\ttypes.CommitAcknowledgement(acknowledgement),"},
	// C06
	{Prop: "C06", Name: "relayer authorised for the wrong chain field", File: fMsgSrv, Expect: "C06/",
		Old: "k.ClientKeeper.AuthRelayer(ctx, msg.ChainName, msg.Signer)", New: "k.ClientKeeper.AuthRelayer(ctx, header.ClientType(), msg.Signer)"},
	{Prop: "C06", Name: "AuthRelayer true for any registered relayer", File: fRelayer, Expect: "C06/",
		Old: "\t\tfor _, chain := range ir.Chains {\n\t\t\tif chain == chainName {\n\t\t\t\treturn true\n\t\t\t}\n\t\t}\n\t}\n\treturn false", New: "\t\tfor _, chain := range ir.Chains {\n\t\t\tif chain == chainName {\n\t\t\t\treturn true\n\t\t\t}\n\t\t}\n\t\treturn len(ir.Chains) > 0\n\t}\n\treturn false"},
	{Prop: "C06", Name: "fee recipient taken from the message signer", File: fMsgSrv, Expect: "C06/",
		Old: "packettypes.NewAcknowledgement(result.Code, result.Result, result.Message, relayer, packet.FeeOption)", New: "packettypes.NewAcknowledgement(result.Code, result.Result, result.Message, msg.Signer, packet.FeeOption)"},
	{Prop: "C06", Name: "client-specific signer check skipped", File: fMsgSrv, Expect: "C06/",
		Old: "\tif err = clientState.CheckMsg(msg); err != nil {\n\t\treturn nil, err\n\t}\n", New: "\t_ = clientState\n"},
	// C07
	{Prop: "C07", Name: "header may equal the trusted height", File: fTmUpd, Expect: "C07/",
		Old: "if header.GetHeight().LTE(header.TrustedHeight) {", New: "if header.GetHeight().LT(header.TrustedHeight) {"},
	{Prop: "C07", Name: "latest height assigned unconditionally", File: fTmUpd, Expect: "C07/",
		Old: "\tif height.GT(clientState.LatestHeight) {\n\t\tclientState.LatestHeight = height\n\t}", New: "\tclientState.LatestHeight = height"},
	{Prop: "C07", Name: "delay check inclusive bound flipped", File: fTmCS, Expect: "C07/",
		Old: "if validTime > currentTimestamp {", New: "if validTime > currentTimestamp+delayPeriod {"},
	{Prop: "C07", Name: "proof verified against the latest consensus state", File: fTmCS, Expect: "C07/",
		Old: "\tconsensusState, err = GetConsensusState(store, cdc, height)\n\tif err != nil {\n\t\treturn commitmenttypes.MerkleProof{}, nil, err", New: "\tconsensusState, err = GetConsensusState(store, cdc, cs.GetLatestHeight())\n\tif err != nil {\n\t\treturn commitmenttypes.MerkleProof{}, nil, err"},
	{Prop: "C07", Name: "revision check dropped", File: fTmUpd, Expect: "C07/",
		Old: "if header.GetHeight().GetRevisionNumber() != header.TrustedHeight.RevisionNumber {", New: "if header.GetHeight().GetRevisionNumber() < header.TrustedHeight.RevisionNumber {"},
	// C08
	{Prop: "C08", Name: "ETH: contract address binding dropped", File: fEthCS, Expect: "C08/",
		Old: "if !bytes.Equal(addr, contractAddr) {", New: "if len(addr) != len(contractAddr) {"},
	{Prop: "C08", Name: "BSC: storage key binding dropped", File: fBscCS, Expect: "C08/",
		Old: "if !bytes.Equal(common.HexToHash(sp.Key).Bytes(), proofKey) {", New: "if len(proofKey) == 0 {"},
	{Prop: "C08", Name: "ETH: commitment verified at the ack slot", File: fEthCS, Expect: "C08/",
		Old: "return verifyMerkleProof(ethProof, consensusState, cs.ContractAddress, commitment, constructor.GetPacketCommitmentProofKey())", New: "return verifyMerkleProof(ethProof, consensusState, cs.ContractAddress, commitment, constructor.GetAckProofKey())"},
	{Prop: "C08", Name: "BSC: confirmation delay dropped for commitments", File: fBscCS, Expect: "C08/",
		Old: "commitment []byte,\n) error {\n\tbscProof, consensusState, err := produceVerificationArgs(store, cdc, m, height, proof)\n\tif err != nil {\n\t\treturn err\n\t}\n", New: "commitment []byte,\n) error {\n\tbscProof, consensusState, err := produceVerificationArgs(store, cdc, m, height, proof)\n\tif err != nil {\n\t\treturn err\n\t}\n\tif m.GetDelayBlock() > 0 {\n\t\tconstructor := NewProofKeyConstructor(srcChain, dstChain, sequence)\n\t\treturn verifyMerkleProof(bscProof, consensusState, m.ContractAddress, commitment, constructor.GetPacketCommitmentProofKey())\n\t}\n"},
	{Prop: "C08", Name: "ETH: more than one storage proof tolerated", File: fEthCS, Expect: "C08/",
		Old: "if len(ethProof.StorageProof) != 1 {", New: "if len(ethProof.StorageProof) < 1 {"},
	// C09
	{Prop: "C09", Name: "recent-signer window off by one", File: fBscHdr, Expect: "C09/",
		Old: "seen > number-limit {", New: "seen > number-limit+1 {"},
	{Prop: "C09", Name: "validator set switched at the epoch block itself", File: fBscUpd, Expect: "C09/",
		Old: "if number%clientState.Epoch == uint64(len(clientState.Validators)/2) {", New: "if number%clientState.Epoch == 0 {"},
	{Prop: "C09", Name: "parent hash no longer compared", File: fBscHdr, Expect: "C09/",
		Old: "if parent.Height.RevisionHeight != height-1 || parent.Hash() != common.BytesToHash(header.ParentHash) {", New: "if parent.Height.RevisionHeight != height-1 {"},
	{Prop: "C09", Name: "out-of-turn signer may use in-turn difficulty", File: fBscHdr, Expect: "C09/",
		Old: "if !inturn && diff.Cmp(diffNoTurn) != 0 {", New: "if !inturn && diff.Cmp(diffNoTurn) != 0 && diff.Cmp(diffInTurn) != 0 {"},
	{Prop: "C09", Name: "in-turn computed over the unsorted validator list", File: fBscSnap, Expect: "C09/",
		Old: "offset := (s.Number + 1) % uint64(len(validators))", New: "offset := s.Number % uint64(len(validators))"},
	{Prop: "C09", Name: "validator list no longer sorted", File: fBscSnap, Expect: "C09/turn-order",
		Old: "\tsort.Sort(validatorsAscending(validators))\n", New: "\t_ = sort.Sort\n"},
	{Prop: "C09", Name: "validators sorted in descending order", File: fBscSnap, Expect: "C09/turn-order",
		Old: "return bytes.Compare(s[i][:], s[j][:]) < 0 }", New: "return bytes.Compare(s[i][:], s[j][:]) > 0 }"},
	{Prop: "C09", Name: "metadata export stops after the first entry", File: fBscCS, Expect: "C09/window-and-pending",
		Old: "\t\tgm = append(gm, clienttypes.NewGenesisMetadata(key, val))\n\t\treturn false\n\t}\n\n\tIteratorTraversal(store, PrefixKeyRecentSingers, callback)", New: "\t\tgm = append(gm, clienttypes.NewGenesisMetadata(key, val))\n\t\treturn true\n\t}\n\n\tIteratorTraversal(store, PrefixKeyRecentSingers, callback)"},
	{Prop: "C14", Name: "recent-signer scan stops at the first entry of the signer (map order decides)", File: fBscHdr, Expect: "C14/nondeterminism-source",
		Old: "\t\t\t\treturn sdkerrors.Wrap(ErrRecentlySigned, signer.Hex())\n\t\t\t}\n", New: "\t\t\t\treturn sdkerrors.Wrap(ErrRecentlySigned, signer.Hex())\n\t\t\t}\n\t\t\tbreak\n"},
	{Prop: "C08", Name: "slot path prints the sequence through int", File: fHostKey, Expect: "C08/slot-path-shape",
		Old: "return fmt.Sprintf(\"%s/%d\", PacketCommitmentPrefixPath(srcChain, dstChain), sequence)", New: "return fmt.Sprintf(\"%s/%d\", PacketCommitmentPrefixPath(srcChain, dstChain), int(sequence))"},
	{Prop: "C03", Name: "refund callback skipped for error acknowledgements", File: fMsgSrv, Expect: "C03/ack-outcome",
		Old: "\t\t// OnAcknowledgementPacket\n\t\tif _, err := ", New: "\t\t// OnAcknowledgementPacket\n\t\tif !success {\n\t\t\treturn &packettypes.MsgAcknowledgementResponse{}, nil\n\t\t}\n\t\tif _, err := "},
	{Prop: "C04", Name: "upgrade keeps the packet contract's storage", File: "app/upgrades.go", Expect: "C04/reset-wipes-both-counters",
		Old: "_ = app.EvmKeeper.DeleteAccount(ctx, common.HexToAddress(DeprecatedPacketContractAddress))", New: "_ = DeprecatedPacketContractAddress"},
	{Prop: "C15", Name: "prune scan tolerates a missing consensus state and dereferences it", File: fEthUpd, Expect: "C15/result-used-only",
		Old: "\t\tif err != nil {\n\t\t\tpruneError = err", New: "\t\tif err != nil && !clienttypes.ErrInvalidConsensus.Is(err) {\n\t\t\tpruneError = err"},
	{Prop: "C06", Name: "re-registration skipped when the relayer is already authorised", File: "x/xibc/core/client/keeper/proposal.go", Expect: "C06/passed-registration-is-stored",
		Old: "\tk.RegisterRelayers(ctx, p.Address, p.Chains, p.Addresses)\n\n\treturn nil", New: "\tif !k.AuthRelayer(ctx, p.Chains[0], p.Address) {\n\t\tk.RegisterRelayers(ctx, p.Address, p.Chains, p.Addresses)\n\t}\n\n\treturn nil"},
	{Prop: "C16", Name: "middleware recovers from a panic and returns a nil acknowledgement", File: fAggMW, Expect: "C16/no-swallowed-panic",
		Old: "\treturn im.keeper.OnRecvPacket(ctx, packet, ack)", New: "\tdefer func() { _ = recover() }()\n\treturn im.keeper.OnRecvPacket(ctx, packet, ack)"},
	{Prop: "C20", Name: "no vesting in the first block", File: "x/rvesting/module/module.go", Expect: "C20/runs-in-every-block",
		Old: "\tBeginBlocker(ctx, am.keeper)", New: "\tif ctx.BlockHeight() > 1 {\n\t\tBeginBlocker(ctx, am.keeper)\n\t}"},
	{Prop: "C19", Name: "ETH iteration key read back without its revision", File: "x/xibc/clients/light-clients/eth/types/store.go", Expect: "C19/iteration-keys-read-back-whole",
		Old: "\treturn clienttypes.NewHeight(revision, height)", New: "\t_ = revision\n\treturn clienttypes.NewHeight(0, height)"},
	{Prop: "C11", Name: "aggregate keeper on the burn-redirecting bank keeper", File: "app/app.go", Expect: "C11/burn-removes-supply",
		Old: "\t\tapp.AccountKeeper,\n\t\tapp.BankKeeper,\n\t\tapp.EvmKeeper,\n\t)", New: "\t\tapp.AccountKeeper,\n\t\toverwriteBankKeeper,\n\t\tapp.EvmKeeper,\n\t)"},
	// C10
	{Prop: "C10", Name: "timestamp may equal the parent's", File: fEthHdr, Expect: "C10/",
		Old: "if header.Time <= parentHeader.Time {", New: "if header.Time < parentHeader.Time {"},
	{Prop: "C10", Name: "difficulty mismatch accepted on every chain id", File: fEthHdr, Expect: "C10/",
		Old: "\t\tif clientState.ChainId == rinkebyChainID {\n\t\t\treturn nil\n\t\t}", New: "\t\tif clientState.ChainId != 0 {\n\t\t\treturn nil\n\t\t}"},
	{Prop: "C10", Name: "proof of work skipped", File: fEthUpd, Expect: "C10/",
		Old: "\t\tif err := VerifyCascadingFields(header); err != nil {", New: "\t\tif err := VerifyCascadingFields(header); err != nil && len(header.Extra) > 0 {"},
	{Prop: "C10", Name: "base fee not compared", File: fEthVer, Expect: "C10/",
		Old: "if header.ToEthHeader().BaseFee.Cmp(expectedBaseFee) != 0 {", New: "if header.ToEthHeader().BaseFee.Sign() < 0 && expectedBaseFee != nil {"},
	// C11
	{Prop: "C11", Name: "mints amount+1 tokens", File: fAggMsg, Expect: "C11/",
		Old: "\"mint\", receiver, msg.Coin.Amount.BigInt())", New: "\"mint\", receiver, new(big.Int).Add(msg.Coin.Amount.BigInt(), big.NewInt(1)))"},
	{Prop: "C11", Name: "blocked receiver check dropped", File: fAggMint, Expect: "C11/",
		Old: "if k.bankKeeper.BlockedAddr(receiver.Bytes()) {", New: "if k.bankKeeper.BlockedAddr(sender.Bytes()) {"},
	{Prop: "C11", Name: "post-mint balance check dropped", File: fAggMsg, Expect: "C11/",
		Old: "\tbalanceTokenAfter := k.balanceOf(ctx, erc20, contract, receiver)\n\texp := big.NewInt(0).Add(balanceToken, tokens)\n\n\tif r := balanceTokenAfter.Cmp(exp); r != 0 {\n\t\treturn nil, sdkerrors.Wrapf(\n\t\t\ttypes.ErrBalanceInvariance,\n\t\t\t\"invalid token balance - expected: %v, actual: %v\",\n\t\t\texp, balanceTokenAfter,\n\t\t)\n\t}\n\n\tctx.EventManager().EmitEvents(\n\t\tsdk.Events{\n\t\t\tsdk.NewEvent(\n\t\t\t\ttypes.EventTypeConvertCoin,", New: "\tbalanceTokenAfter := k.balanceOf(ctx, erc20, contract, receiver)\n\texp := big.NewInt(0).Add(balanceToken, tokens)\n\n\tif r := balanceTokenAfter.Cmp(exp); r < 0 {\n\t\treturn nil, sdkerrors.Wrapf(\n\t\t\ttypes.ErrBalanceInvariance,\n\t\t\t\"invalid token balance - expected: %v, actual: %v\",\n\t\t\texp, balanceTokenAfter,\n\t\t)\n\t}\n\n\tctx.EventManager().EmitEvents(\n\t\tsdk.Events{\n\t\t\tsdk.NewEvent(\n\t\t\t\ttypes.EventTypeConvertCoin,"},
	// C12
	{Prop: "C12", Name: "RegisterCoin tests the name again", File: fAggProp, Expect: "C12/",
		Old: "\t\treturn nil, sdkerrors.Wrapf(types.ErrEVMDenom, \"cannot register the EVM denomination %s\", evmDenom)\n\t}\n\n\t// check if the denomination already registered\n\tif k.IsDenomRegistered(ctx, coinMetadata.Base) {\n\t\treturn nil, sdkerrors.Wrapf(types.ErrTokenPairAlreadyExists, \"coin denomination already registered: %s\", coinMetadata.Base)\n\t}\n\n\t// check if the coin exists by ensuring the supply is set\n\tif !k.bankKeeper.HasSupply(ctx, coinMetadata.Base) {\n\t\treturn nil, sdkerrors.Wrapf(\n\t\t\tsdkerrors.ErrInvalidCoins,\n\t\t\t\"base denomination '%s' cannot have a supply of 0\", coinMetadata.Base,\n\t\t)\n\t}\n\n\tif err := k.verifyMetadata(ctx, coinMetadata); err != nil {\n\t\treturn nil, sdkerrors.Wrapf(types.ErrInternalTokenPair, \"coin metadata is invalid %s\", coinMetadata.Name)\n\t}\n\n\taddr, err := k.DeployERC20Contract", New: "\t\treturn nil, sdkerrors.Wrapf(types.ErrEVMDenom, \"cannot register the EVM denomination %s\", evmDenom)\n\t}\n\n\t// check if the denomination already registered\n\tif k.IsDenomRegistered(ctx, coinMetadata.Name) {\n\t\treturn nil, sdkerrors.Wrapf(types.ErrTokenPairAlreadyExists, \"coin denomination already registered: %s\", coinMetadata.Base)\n\t}\n\n\t// check if the coin exists by ensuring the supply is set\n\tif !k.bankKeeper.HasSupply(ctx, coinMetadata.Base) {\n\t\treturn nil, sdkerrors.Wrapf(\n\t\t\tsdkerrors.ErrInvalidCoins,\n\t\t\t\"base denomination '%s' cannot have a supply of 0\", coinMetadata.Base,\n\t\t)\n\t}\n\n\tif err := k.verifyMetadata(ctx, coinMetadata); err != nil {\n\t\treturn nil, sdkerrors.Wrapf(types.ErrInternalTokenPair, \"coin metadata is invalid %s\", coinMetadata.Name)\n\t}\n\n\taddr, err := k.DeployERC20Contract"},
	{Prop: "C12", Name: "update re-indexes only the first denomination", File: fAggProp, Expect: "C12/",
		Old: "k.SetDenomsMap(ctx, pair.Denoms, newID)", New: "k.SetDenomMap(ctx, pair.Denoms[0], newID)"},
	{Prop: "C12", Name: "delete forgets the denominations", File: fAggTP, Expect: "C12/",
		Old: "\tfor _, denom := range tokenPair.Denoms {\n\t\tk.deleteDenomMap(ctx, denom)\n\t}", New: "\tk.deleteDenomMap(ctx, tokenPair.Denoms[0])"},
	{Prop: "C12", Name: "RegisterERC20 does not index the contract", File: fAggProp, Expect: "C12/",
		Old: "\tpair := types.NewTokenPair(contract, []string{metadata.Name}, true, types.OWNER_EXTERNAL)\n\tk.SetTokenPair(ctx, pair)\n\tk.SetDenomsMap(ctx, pair.Denoms, pair.GetID())\n\tk.SetERC20Map(ctx, common.HexToAddress(pair.ERC20Address), pair.GetID())", New: "\tpair := types.NewTokenPair(contract, []string{metadata.Name}, true, types.OWNER_EXTERNAL)\n\tk.SetTokenPair(ctx, pair)\n\tk.SetDenomsMap(ctx, pair.Denoms, pair.GetID())"},
	// C13
	{Prop: "C13", Name: "ETH consensus state reports the BSC type again", File: fEthCons, Expect: "C13/",
		Old: "return exported.ETH", New: "return exported.BSC"},
	{Prop: "C13", Name: "consensus-state iterator splits binary heights again", File: fClKeep, Expect: "C13/",
		Old: "keySplit := strings.SplitN(string(key), \"/\", 3)\n\t\tconsensusPrefix", New: "keySplit := strings.Split(string(key), \"/\")\n\t\tconsensusPrefix"},
	{Prop: "C13", Name: "receipts no longer exported", File: "x/xibc/core/packet/genesis.go", Expect: "C13/",
		Old: "\t\tReceipts:         k.GetAllPacketReceipts(ctx),\n", New: ""},
	{Prop: "C13", Name: "new metadata family written without an exporter", File: fTmStore, Expect: "C13/",
		Old: "\tSetProcessedTime(clientStore, height, processedTime)\n\tSetIterationKey(clientStore, height)", New: "\tSetProcessedTime(clientStore, height, processedTime)\n\tSetIterationKey(clientStore, height)\n\tclientStore.Set(append([]byte(\"processedHeights/\"), bigEndianHeightBytes(height)...), bigEndianHeightBytes(processedHeight))"},
	// C14
	{Prop: "C14", Name: "ethash cache on disk again", File: fEthHdr, Expect: "C14/",
		Old: "config := Config{}", New: "config := Config{CacheDir: \"/tmp/ethash\", CachesOnDisk: 1}"},
	{Prop: "C14", Name: "wall clock compared with a header time", File: fEthHdr, Expect: "C14/",
		Old: "if header.Time <= parentHeader.Time {", New: "if header.Time <= parentHeader.Time || header.Time > uint64(time.Now().Unix())+3600 {"},
	{Prop: "C14", Name: "validators taken in map order", File: fBscSnap, Expect: "C14/",
		Old: "\tsort.Sort(validatorsAscending(validators))\n", New: "\tif len(validators) > 64 {\n\t\tsort.Sort(validatorsAscending(validators))\n\t}\n"},
	// C15
	{Prop: "C15", Name: "zero epoch accepted again", File: fBscCS, Expect: "C15/",
		Old: "\tif m.Epoch == 0 {\n\t\treturn sdkerrors.Wrap(ErrInvalidGenesisBlock, \"epoch cannot be zero\")\n\t}\n", New: ""},
	{Prop: "C15", Name: "duplicate reward denominations accepted again", File: fRvParam, Expect: "C15/",
		Old: "\t\tif seen[rr.Denom] {\n\t\t\treturn fmt.Errorf(\"duplicate denom in per block reward: %s\", rr.Denom)\n\t\t}\n", New: ""},
	{Prop: "C15", Name: "new panic in the toggle handler", File: fClient, Expect: "C15/",
		Old: "\tk.SetClientState(ctx, chainName, newClientState)\n\tif err := newClientState.Initialize(", New: "\tif newConsensusState.GetRoot() == nil {\n\t\tpanic(\"consensus state without root\")\n\t}\n\tk.SetClientState(ctx, chainName, newClientState)\n\tif err := newClientState.Initialize("},
	{Prop: "C15", Name: "unchecked first element of a proposal slice", File: "x/xibc/core/client/keeper/proposal.go", Expect: "C15/",
		Old: "\tk.RegisterRelayers(ctx, p.Address, p.Chains, p.Addresses)\n", New: "\tif p.Chains[0] == \"\" {\n\t\treturn nil\n\t}\n\tk.RegisterRelayers(ctx, p.Address, p.Chains, p.Addresses)\n"},
	// C16
	{Prop: "C16", Name: "hook drops the ack on one failure path", File: fAggHook, Expect: "C16/",
		Old: "\t\tevent.Message = \"Change data.Amount type to int error\"\n\t\t_ = ctx.EventManager().EmitTypedEvent(event)\n\t\treturn ack", New: "\t\tevent.Message = \"Change data.Amount type to int error\"\n\t\t_ = ctx.EventManager().EmitTypedEvent(event)\n\t\treturn nil"},
	{Prop: "C16", Name: "conversion on the outer context", File: fAggHook, Expect: "C16/",
		Old: "context := sdk.WrapSDKContext(cctx)", New: "context := sdk.WrapSDKContext(ctx)"},
	{Prop: "C16", Name: "middleware swallows a failed ack", File: fAggMW, Expect: "C16/",
		Old: "\tif !ack.Success() {\n\t\treturn ack\n\t}\n\n\treturn im.keeper.OnRecvPacket(ctx, packet, ack)", New: "\treturn im.keeper.OnRecvPacket(ctx, packet, ack)"},
	// C17
	{Prop: "C17", Name: "staking hook accepts look-alike events from any address", File: fStkHook, Expect: "C17/",
		Old: "if bytes.Equal(log.Address.Bytes(), h.stakingContract.Bytes()) {", New: "if len(log.Topics) > 0 || bytes.Equal(log.Address.Bytes(), h.stakingContract.Bytes()) {"},
	{Prop: "C17", Name: "undelegate handler parses the Delegated event", File: fStkHand, Expect: "C17/",
		Old: "syscontracts.ParseLog(event, h.abi, log, \"Undelegated\")", New: "syscontracts.ParseLog(event, h.abi, log, \"Delegated\")"},
	{Prop: "C17", Name: "native failure swallowed", File: fAdExec, Expect: "C17/",
		Old: "\t_, err := handler(ctx, msg)\n\treturn err", New: "\t_, _ = handler(ctx, msg)\n\treturn nil"},
	{Prop: "C17", Name: "burn really burns", File: fAdBank, Expect: "C17/",
		Old: "return k.SendCoinsFromModuleToModule(ctx, moduleName, authtypes.FeeCollectorName, amounts)", New: "if moduleName == authtypes.FeeCollectorName {\n\t\treturn nil\n\t}\n\treturn k.BaseKeeper.BurnCoins(ctx, moduleName, amounts)"},
	// C18
	{Prop: "C18", Name: "toggle initialises the old client again", File: fClient, Expect: "C18/",
		Old: "if err := newClientState.Initialize(ctx, k.cdc, k.ClientStore(ctx, chainName), newConsensusState); err != nil {", New: "if err := clientState.Initialize(ctx, k.cdc, k.ClientStore(ctx, chainName), newConsensusState); err != nil {"},
	{Prop: "C18", Name: "TSS header height nil again", File: fTssHdr, Expect: "C18/",
		Old: "return clienttypes.Height{}", New: "var zero *clienttypes.Height\n\tif zero == nil {\n\t\treturn nil\n\t}\n\treturn zero"},
	{Prop: "C18", Name: "upgrade accepts a different client type", File: fClient, Expect: "C18/",
		Old: "if clientState.ClientType() != newClientState.ClientType() {", New: "if clientState.ClientType() == \"\" {"},
	{Prop: "C18", Name: "non-active client may be updated", File: fClient, Expect: "C18/",
		Old: "status != exported.Active {", New: "status == exported.Unknown {"},
	// C19
	{Prop: "C19", Name: "ack tuple component renamed again", File: fPkEvmT, Expect: "C19/",
		Old: "{Name: \"fee_option\", Type: \"uint64\"},\n\t\t},\n\t)\n\tif err != nil {\n\t\tpanic(err)\n\t}\n\tif tupleAckData.T", New: "{Name: \"feeOption\", Type: \"uint64\"},\n\t\t},\n\t)\n\tif err != nil {\n\t\tpanic(err)\n\t}\n\tif tupleAckData.T"},
	{Prop: "C19", Name: "packet tuple drops the callback address", File: fPkEvmT, Expect: "C19/",
		Old: "\t\t\t{Name: \"callback_address\", Type: \"string\"},\n", New: ""},
	{Prop: "C19", Name: "commitment key writes the sequence in hex", File: fHostKey, Expect: "C19/",
		Old: "return fmt.Sprintf(\"%s/%d\", PacketCommitmentPrefixPath(srcChain, dstChain), sequence)", New: "return fmt.Sprintf(\"%s/%x\", PacketCommitmentPrefixPath(srcChain, dstChain), sequence)"},
	// C20
	{Prop: "C20", Name: "min turned into max", File: fRvAbci, Expect: "C20/",
		Old: "if remainingCoin.Amount.LT(reward.Amount) {", New: "if remainingCoin.Amount.GT(reward.Amount) {"},
	{Prop: "C20", Name: "vested coins sent to another module", File: fRvKeep, Expect: "C20/",
		Old: "k.bankKeeper.SendCoinsFromModuleToModule(ctx, types.ModuleName, k.feeCollectorName, vestedCoins)", New: "k.bankKeeper.SendCoinsFromModuleToModule(ctx, types.ModuleName, types.ModuleName, vestedCoins)"},
	{Prop: "C20", Name: "vesting runs although disabled", File: fRvAbci, Expect: "C20/",
		Old: "\tif !params.EnableVesting {\n\t\treturn\n\t}\n", New: ""},
	// negative controls: behaviour-preserving edits must stay silent
	{Prop: "C04", Neg: true, Name: "neg: !(next == seq) instead of seq != next", File: fPacket,
		Old: "if packet.GetSequence() != nextSequenceSend {", New: "if !(nextSequenceSend == packet.GetSequence()) {"},
	{Prop: "C01", Neg: true, Name: "neg: receipt lookup result held in a named local", File: fPacket,
		Old: "\tif _, found := k.GetPacketReceipt(ctx, packet.GetSrcChain(), packet.GetDstChain(), packet.GetSequence()); found {", New: "\t_, alreadyReceived := k.GetPacketReceipt(ctx, packet.GetSrcChain(), packet.GetDstChain(), packet.GetSequence())\n\tif alreadyReceived {"},
	{Prop: "C07", Neg: true, Name: "neg: !GT instead of LTE", File: fTmUpd,
		Old: "if header.GetHeight().LTE(header.TrustedHeight) {", New: "if !header.GetHeight().GT(header.TrustedHeight) {"},
	{Prop: "C07", Neg: true, Name: "neg: delay comparison with swapped operands", File: fTmCS,
		Old: "if validTime > currentTimestamp {", New: "if currentTimestamp < validTime {"},
	{Prop: "C20", Neg: true, Name: "neg: reward.GT(remaining) instead of remaining.LT(reward)", File: fRvAbci,
		Old: "if remainingCoin.Amount.LT(reward.Amount) {", New: "if reward.Amount.GT(remainingCoin.Amount) {"},
	{Prop: "C09", Neg: true, Name: "neg: recent window comparison with swapped operands", File: fBscHdr,
		Old: "seen > number-limit {", New: "number-limit < seen {"},
	{Prop: "C02", Neg: true, Name: "neg: error message of the commitment mismatch changed", File: fPacket,
		Old: "\"commitment bytes are not equal: got (%v), expected (%v)\",", New: "\"stored commitment differs from the recomputed one: %v vs %v\","},
}
