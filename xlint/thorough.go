package main

import (
	"fmt"
	"os"
	"path/filepath"
	"runtime"
	"sort"
	"strings"
)

// seed: an in-memory mutant (packages.Config.Overlay; /repo is never touched) that must make the property's check fire.
type seed struct {
	Prop, Name string
	File       string // path relative to the repository root
	Old, New   string // Old must occur exactly once in File
	Expect     string // prefix of the rule expected to fire ("" = any rule of the property)
	Neg        bool   // negative control: a behaviour-preserving edit; the check must stay silent
}

type seedResult struct {
	Name    string `json:"name"`
	Status  string `json:"status"` // killed | SURVIVED | skipped(anchor-absent) | skipped(does-not-compile)
	FiredBy string `json:"fired_by,omitempty"`
}

func violationKeys(c *Check) []string {
	var ks []string
	for _, o := range c.Obs {
		if o.Status == "violated" {
			ks = append(ks, o.Key())
		}
	}
	sort.Strings(ks)
	return ks
}

func runProp(p *Program, id, tier string, alt bool) *Check {
	c := newCheck(p, id, tier)
	c.AltCG = alt
	props[id](c)
	return c
}

// tryLoad loads a variant program; returns nil if it does not type-check (used for seeds).
func tryLoad(dir string, env []string, overlay map[string][]byte) (p *Program, err error) {
	defer func() {
		if r := recover(); r != nil {
			err = fmt.Errorf("%v", r)
		}
	}()
	loadFailPanics = true
	defer func() { loadFailPanics = false }()
	p = loadProgram(dir, env, overlay)
	return p, nil
}

// thorough runs the extra work of the thorough tier for one property and returns (extra evidence, checker failures).
func thorough(repo string, base *Program, id string, baseKeys []string) (map[string]interface{}, []string) {
	extra := map[string]interface{}{}
	var failures []string
	same := func(a, b []string) bool { return strings.Join(a, "\n") == strings.Join(b, "\n") }

	// (a) alternative call graph (CHA <-> VTA) must give the same verdict
	alt := runProp(base, id, "thorough", true)
	ak := violationKeys(alt)
	extra["callgraph_cross_check"] = map[string]interface{}{"same_verdict": same(baseKeys, ak), "obligations": len(alt.Obs)}
	if id == "C14" {
		// C14's primary graph is VTA; the alternative (CHA) is strictly coarser and drags in code that is never called
		// (gRPC gateway registration, the vendored miner): its extra sites are reported, not treated as a disagreement
		extra["callgraph_cross_check"] = map[string]interface{}{"primary": "vta", "alternative": "cha (coarser)", "extra_sites_under_cha": len(ak) - len(baseKeys)}
	} else if !same(baseKeys, ak) {
		failures = append(failures, fmt.Sprintf("verdict differs between call-graph constructions: %v vs %v", baseKeys, ak))
	}
	// (b) second load under GOARCH=386 (covers arch-guarded files). Best effort: packages that need cgo or are
	// amd64-only (the app package and its wiring) do not load there; a property anchored in them is reported as not
	// analysable under 386 rather than as a disagreement. No teleport source file carries a build constraint.
	func() {
		defer func() {
			if r := recover(); r != nil {
				extra["goarch_386"] = fmt.Sprintf("not analysable under GOARCH=386: %v", r)
			}
			loadFailPanics = false
		}()
		p386, err := tryLoad(repo, []string{"GOARCH=386", "CGO_ENABLED=0"}, nil)
		if err != nil || p386 == nil {
			extra["goarch_386"] = fmt.Sprintf("load failed: %v", err)
			return
		}
		missing := 0
		for path := range base.SSAPkgs {
			if strings.HasPrefix(path, modPath) && p386.SSAPkgs[path] == nil {
				missing++
			}
		}
		if missing > 0 {
			extra["goarch_386"] = fmt.Sprintf("partial load under GOARCH=386 (%d teleport package(s) need cgo / amd64 and do not build there, among them the app wiring): verdict comparison skipped", missing)
			return
		}
		loadFailPanics = true
		c386 := runProp(p386, id, "thorough", false)
		loadFailPanics = false
		k := violationKeys(c386)
		extra["goarch_386"] = map[string]interface{}{"same_verdict": same(baseKeys, k), "packages": len(p386.Pkgs)}
		if !same(baseKeys, k) {
			failures = append(failures, fmt.Sprintf("verdict differs under GOARCH=386: %v vs %v", baseKeys, k))
		}
	}()
	runtime.GC()
	sv, sfail := thoroughSeedsOnly(repo, id, baseKeys)
	failures = append(failures, sfail...)
	extra["self_validation"] = sv
	return extra, failures
}

// thoroughSeedsOnly runs the seeded faults of one property.
func thoroughSeedsOnly(repo, id string, baseKeys []string) (map[string]interface{}, []string) {
	var failures []string
	// (c) seeded-fault self-validation
	var results []seedResult
	killed, survived := 0, 0
	for _, s := range seeds {
		if s.Prop != id {
			continue
		}
		path := filepath.Join(repo, s.File)
		src, err := os.ReadFile(path)
		if err != nil || strings.Count(string(src), s.Old) != 1 {
			results = append(results, seedResult{Name: s.Name, Status: "skipped(anchor-absent)"})
			continue
		}
		mut := strings.Replace(string(src), s.Old, s.New, 1)
		pm, err := tryLoad(repo, nil, map[string][]byte{path: []byte(mut)})
		if err != nil || pm == nil {
			results = append(results, seedResult{Name: s.Name, Status: "skipped(does-not-compile)"})
			continue
		}
		cm := runProp(pm, id, "thorough", false)
		fired := ""
		for _, o := range cm.Obs {
			if o.Status == "violated" && !contains(baseKeys, o.Key()) && strings.HasPrefix(o.Rule, s.Expect) {
				fired = o.Key()
				break
			}
		}
		if s.Neg {
			any := ""
			for _, o := range cm.Obs {
				if o.Status == "violated" && !contains(baseKeys, o.Key()) {
					any = o.Key()
				}
			}
			if any == "" {
				killed++
				results = append(results, seedResult{Name: s.Name, Status: "silent (negative control)"})
			} else {
				survived++
				results = append(results, seedResult{Name: s.Name, Status: "FALSE-ALARM", FiredBy: trunc(any)})
				failures = append(failures, "negative control raised an alarm: "+s.Name+" → "+any)
			}
			pm, cm = nil, nil
			runtime.GC()
			continue
		}
		if fired != "" {
			killed++
			results = append(results, seedResult{Name: s.Name, Status: "killed", FiredBy: trunc(fired)})
		} else {
			survived++
			results = append(results, seedResult{Name: s.Name, Status: "SURVIVED"})
			failures = append(failures, "seeded fault survived: "+s.Name)
		}
		pm, cm = nil, nil
		runtime.GC()
	}
	return map[string]interface{}{"seeds": len(results), "killed": killed, "survivors": survived, "results": results,
		"note": "each seed is a one-edit mutant of /repo's current source, type-checked and analysed in memory (go/packages Overlay); the check must report a new violation for it"}, failures
}

func contains(ss []string, s string) bool {
	for _, x := range ss {
		if x == s {
			return true
		}
	}
	return false
}
