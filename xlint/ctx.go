package main

import (
	"encoding/json"
	"fmt"
	"go/token"
	"os"
	"path/filepath"
	"sort"
	"strings"
	"time"

	"golang.org/x/tools/go/ssa"
)

type Ob struct {
	Rule      string `json:"rule"`
	Construct string `json:"construct"`
	Status    string `json:"status"` // discharged | violated
	Pos       string `json:"pos,omitempty"`
	Detail    string `json:"detail,omitempty"`
}

func (o *Ob) Key() string { return o.Rule + "/" + o.Construct }

type Check struct {
	fnNames    map[string]bool
	P          *Program
	Prop       string
	Tier       string
	Obs        []*Ob
	seen       map[string]*Ob
	floors     map[string]int
	Rules      map[string]string // rule id -> text
	ruleOrder  []string
	Declined   []string
	Trusted    []string
	Assume     []string
	funcsSeen  map[*ssa.Function]bool
	Extra      map[string]interface{}
	AltCG      bool // thorough tier: use the other call-graph construction (CHA <-> VTA)
	start      time.Time
	fixtureRun bool
	byName     map[string]*ssa.Function
	extraConds []string // conditions of the merge edge of the call-site instance being checked (see Program.Instances)
}

func newCheck(p *Program, prop, tier string) *Check {
	return &Check{P: p, Prop: prop, Tier: tier, seen: map[string]*Ob{}, floors: map[string]int{}, Rules: map[string]string{},
		funcsSeen: map[*ssa.Function]bool{}, Extra: map[string]interface{}{}, start: time.Now()}
}

// Rule declares a rule with its text and the minimum number of instances it must evaluate.
func (c *Check) Rule(id, text string, floor int) {
	if _, ok := c.Rules[id]; !ok {
		c.ruleOrder = append(c.ruleOrder, id)
	}
	c.Rules[id] = text
	c.floors[id] = floor
}

func (c *Check) record(rule, construct, status string, pos token.Pos, detail string) {
	if _, ok := c.Rules[rule]; !ok {
		checkerFail("internal: rule %s used but not declared (property %s)", rule, c.Prop)
	}
	o := &Ob{Rule: rule, Construct: construct, Status: status, Pos: c.P.Pos(pos), Detail: detail}
	if prev, dup := c.seen[o.Key()]; dup {
		// same obligation evaluated twice: keep the worse status
		if prev.Status == "discharged" && status == "violated" {
			prev.Status, prev.Pos, prev.Detail = status, o.Pos, detail
		}
		return
	}
	c.seen[o.Key()] = o
	c.Obs = append(c.Obs, o)
}

func (c *Check) Ok(rule, construct string, pos token.Pos, detail string) {
	c.record(rule, construct, "discharged", pos, detail)
}
func (c *Check) Bad(rule, construct string, pos token.Pos, detail string) {
	c.record(rule, construct, "violated", pos, detail)
}

// Req records an obligation: discharged if ok, violated otherwise.
func (c *Check) Req(ok bool, rule, construct string, pos token.Pos, okDetail, badDetail string) bool {
	if ok {
		c.Ok(rule, construct, pos, okDetail)
	} else {
		c.Bad(rule, construct, pos, badDetail)
	}
	return ok
}

func (c *Check) Touch(fn *ssa.Function) *ssa.Function { c.funcsSeen[fn] = true; return fn }

// F resolves and registers an anchor function.
func (c *Check) F(spec string) *ssa.Function { return c.Touch(c.P.Func(spec)) }

type knownFinding struct {
	Property string `json:"property"`
	Key      string `json:"key"`
	Status   string `json:"status"` // finding | fixed
	Commit   string `json:"commit,omitempty"`
	What     string `json:"what"`
}

func verifRoot() string {
	if r := os.Getenv("VERIF_ROOT"); r != "" {
		return r
	}
	return "/verif"
}

func loadKnown() []knownFinding {
	var kf []knownFinding
	b, err := os.ReadFile(filepath.Join(verifRoot(), "known_findings.json"))
	if err != nil {
		return nil
	}
	if err := json.Unmarshal(b, &kf); err != nil {
		checkerFail("known_findings.json: %v", err)
	}
	return kf
}

// Finish evaluates floors, compares violations with known findings, writes evidence; returns exit code.
func (c *Check) Finish(seed int, writeEvidence bool) int {
	counts := map[string]int{}
	disch := 0
	var viol []*Ob
	for _, o := range c.Obs {
		counts[o.Rule]++
		if o.Status == "discharged" {
			disch++
		} else {
			viol = append(viol, o)
		}
	}
	// floors: a rule that matched fewer instances than confirmed by hand went vacuous -> checker failure
	var vac []string
	for _, r := range c.ruleOrder {
		if counts[r] < c.floors[r] {
			vac = append(vac, fmt.Sprintf("%s: %d instance(s) < floor %d", r, counts[r], c.floors[r]))
		}
	}
	known := map[string]knownFinding{}
	for _, k := range loadKnown() {
		if k.Property == c.Prop && k.Status == "finding" {
			known[k.Key] = k
		}
	}
	var newViol, knownHit []*Ob
	for _, o := range viol {
		if k, ok := known[o.Key()]; ok {
			knownHit = append(knownHit, o)
			fmt.Printf("KNOWN-FINDING: property=%s %s — %s [%s]\n", c.Prop, o.Key(), k.What, o.Pos)
		} else {
			newViol = append(newViol, o)
		}
	}
	if dp := os.Getenv("XLINT_DUMP_OBS"); dp != "" {
		if f, err := os.OpenFile(dp, os.O_APPEND|os.O_CREATE|os.O_WRONLY, 0o644); err == nil {
			for _, o := range c.Obs {
				fmt.Fprintf(f, "%s\t%s\t%s\t%s\n", c.Prop, o.Status, o.Key(), o.Detail)
			}
			f.Close()
		}
	}
	evDir := filepath.Join(verifRoot(), "evidence")
	violPath := filepath.Join(evDir, c.Prop+".violation.json")
	os.Remove(violPath)
	for _, o := range newViol {
		fmt.Printf("VIOLATION property=%s replay=%s\n", c.Prop, violPath)
		fmt.Printf("  rule=%s construct=%s at %s\n  %s\n  rule text: %s\n", o.Rule, o.Construct, o.Pos, o.Detail, c.Rules[o.Rule])
	}
	wall := time.Since(c.start).Seconds()
	if writeEvidence {
		os.MkdirAll(evDir, 0o755)
		samples := []interface{}{}
		perRule := map[string]int{}
		for _, o := range c.Obs {
			if perRule[o.Rule] < 3 || o.Status == "violated" {
				samples = append(samples, o)
				perRule[o.Rule]++
			}
		}
		var rules []string
		for _, r := range c.ruleOrder {
			rules = append(rules, fmt.Sprintf("%s [%d instances, floor %d]: %s", r, counts[r], c.floors[r], c.Rules[r]))
		}
		var fnames []string
		for f := range c.funcsSeen {
			fnames = append(fnames, funcName(f))
		}
		sort.Strings(fnames)
		distinct := map[string]bool{}
		for _, o := range c.Obs {
			if o.Pos != "-" {
				distinct[o.Key()] = true
			}
		}
		cov := map[string]interface{}{
			"explanation": "Static analysis (go/packages + go/ssa over /repo's working tree, no execution). Structural necessary conditions of " + c.Prop +
				" decided on every path of the anchored functions. Rules:\n" + strings.Join(rules, "\n") +
				"\nDeclined (not decided by this check): " + strings.Join(c.Declined, "; "),
			"obligations":         len(c.Obs),
			"discharged":          disch,
			"evaluations":         len(c.Obs),
			"distinct_nontrivial": len(distinct),
			"rule":                "one obligation = (rule, construct) resolved against the type-checked SSA program; non-trivial = matched a real source position in /repo (fixtures excluded); distinct by rule+construct key",
			"samples":             samples,
			"rule_instances":      counts,
			"floors":              c.floors,
			"analysed": map[string]interface{}{
				"teleport_packages":  len(c.P.Pkgs),
				"teleport_functions": c.P.NFuncs,
				"teleport_blocks":    c.P.NBlocks,
				"anchor_functions":   fnames,
			},
			"normal_form": func() map[string]interface{} {
				if c.P.inl == nil {
					return map[string]interface{}{"enabled": false}
				}
				return map[string]interface{}{"enabled": true, "helper_call_sites_inlined": c.P.inl.nSites, "continuations_threaded": c.P.inl.nThreaded,
					"rule": "static calls to in-repository functions whose names do not occur in the rule sources / frozen tables are replaced by the callee's body before any rule is evaluated; call graphs are built from the program as written"}
			}(),
			"known_findings_hit": len(knownHit),
			"vacuous_rules":      vac,
			"checker_cmd":        strings.Join(os.Args, " "),
			"trusted_base":       c.Trusted,
			"exhaustive":         false,
		}
		for k, v := range c.Extra {
			cov[k] = v
		}
		if c.Assume == nil {
			c.Assume = []string{}
		}
		if c.Trusted == nil {
			c.Trusted = []string{}
		}
		c.Assume = append(c.Assume, "the type-checked SSA program built by go/packages + go/ssa (x/tools v0.29.0) from /repo's working tree is a faithful model of the compiled code")
		ev := map[string]interface{}{
			"property_id": c.Prop,
			"tier":        c.Tier,
			"seed":        seed,
			"level":       "other",
			"coverage":    cov,
			"assumptions": c.Assume,
			"wall_s":      wall,
			"violations":  len(newViol),
		}
		b, _ := json.MarshalIndent(ev, "", " ")
		if err := os.WriteFile(filepath.Join(evDir, c.Prop+".json"), b, 0o644); err != nil {
			checkerFail("write evidence: %v", err)
		}
		if len(newViol) > 0 {
			vb, _ := json.MarshalIndent(map[string]interface{}{"property": c.Prop, "violations": newViol, "replay": strings.Join(os.Args, " ")}, "", " ")
			os.WriteFile(violPath, vb, 0o644)
		}
	}
	fmt.Printf("%s %s: %d obligations, %d discharged, %d known finding(s), %d new violation(s), %.1fs\n", c.Prop, c.Tier, len(c.Obs), disch, len(knownHit), len(newViol), wall)
	if len(newViol) > 0 {
		return 1
	}
	if len(vac) > 0 {
		fmt.Printf("CHECKER-FAILURE: property=%s rule(s) went vacuous: %s\n", c.Prop, strings.Join(vac, "; "))
		return 2
	}
	return 0
}
