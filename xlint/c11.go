package main

import (
	"fmt"
	"strings"
)

func init() { register("C11", c11) }

func c11(c *Check) {
	c.Declined = []string{
		"'fully backed at all times': an invariant over histories and over token contracts that misreport or take fees (runtime)",
		"a nil balance from a failing balanceOf view call (in-transaction panic, recovered: the message fails)",
		"ERC-20 contract behaviour (byte code)",
	}
	c.Trusted = []string{"cosmos-sdk bank keeper", "ethermint EVM", "BaseApp atomicity (a failed message changes nothing)", "go/ssa"}
	c.Assume = []string{"guards and bindings were selected by source position at freeze time (xlint/picks/C11.txt)"}
	c.Rule("C11/gate", "frozen table: both entry points call MintingEnabled with the message's sender, receiver, token and denom, reject on its error, dispatch on the pair's owner with a rejecting default; MintingEnabled rejects when the module is disabled, token and denom belong to different pairs, the pair is unknown or disabled, the receiver is blocked or the coin is send-disabled", 20)
	c.Rule("C11/conversions", "frozen table: each of the four conversion functions performs exactly its escrow/mint (burn/unescrow, transfer/mint, escrow/release/burn) effects with the message's amount and parties, propagates every error, and reaches success only after the post-call balance equals the pre-call balance ± the amount on the side it moves", 60)
	n := c.Frozen("C11")
	c.Extra["frozen_entries"] = n
	c.Rule("C11/no-failure-reported-as-success", "on the failure edge of one error no function returns another error value that is provably nil at that point (a wrapped stale `err` instead of the error just tested): a failed step is never reported as success", 1)
	noFailureAsSuccess(c, "C11/no-failure-reported-as-success", fnsInPackages(c, "/x/aggregate"))
	c.Rule("C11/one-backing-per-contract-and-denomination", "what keeps each pair's backing apart (shared with C12): a registration function indexes a contract or a denomination only after testing exactly that key as not yet registered, and those tests answer from their own index at exactly the key given — otherwise two pairs share a contract or a denomination and one pair's conversions pay out the other's escrow", 8)
	guardKeyIsWriteKey(c, "C11/one-backing-per-contract-and-denomination", []string{"RegisterCoin", "AddCoin", "RegisterERC20", "UpdateTokenPairERC20"})
	registeredTestsReadOwnIndex(c, "C11/one-backing-per-contract-and-denomination")
	c.Rule("C11/burn-removes-supply", "the aggregate keeper is wired to the plain bank keeper, not to the burn-redirecting one that staking and governance use: the vouchers burned by a conversion leave the supply (otherwise voucher supply exceeds the escrowed tokens)", 1)
	for _, cs := range c.Calls(c.F("app.NewTeleport"), "aggregate/keeper.NewKeeper") {
		a := c.P.ArgExprs(cs)
		ok := len(a) > 4 && a[4].IsCall("bank/keeper.NewBaseKeeper")
		got := ""
		if len(a) > 4 {
			got = a[4].String()
		}
		c.Req(ok, "C11/burn-removes-supply", "aggregate keeper's bank keeper", cs.Ins.Pos(), "bank/keeper.NewBaseKeeper(…)", "the aggregate keeper is built on "+trunc(got)+", not on the plain bank keeper: BurnCoins of a conversion would be redirected instead of reducing supply")
	}
	c.Rule("C11/disabled-pair-stays-disabled", "no registry operation other than the toggle proposal changes a pair's enabled flag: AddCoin stores the loaded pair with only its denomination list extended (shared with C12)", 1)
	addCoinKeepsPair(c, "C11/disabled-pair-stays-disabled")
	c.Rule("C11/approval-scan-complete", "monitorApprovalEvent accepts a call result only after looking at every log: an Approval event behind another event is still refused", 1)
	allLogsProcessed(c, "C11/approval-scan-complete", agK+"Keeper.monitorApprovalEvent")

	c.Rule("C11/ibc-conversion-all-or-nothing", "the automatic conversion of the ICS-20 hook (anchored in ibc_hook.go) runs on a cache context that is flushed only when ConvertCoin succeeded, so a conversion failing after its escrow step leaves the received vouchers untouched (shared with C16)", 4)
	hookCacheRule(c, "C11/ibc-conversion-all-or-nothing", Macros{
		"CC":    "cosmos-sdk/types.(Context).CacheContext($1)",
		"DATA":  "cell<cosmos-sdk/codec.(*ProtoCodec).UnmarshalJSON(g:transfer/types.ModuleCdc, $2.Data, _)>",
		"AMT":   "cosmos-sdk/types.NewIntFromString({DATA}.Amount)",
		"RCV":   "cosmos-sdk/types.AccAddressFromBech32({DATA}.Receiver)#0",
		"DENOM": "aggregate/types.IBCDenom($2.DestinationPort, $2.DestinationChannel, {DATA}.Denom)",
		"MSG":   "aggregate/types.NewMsgConvertCoin(cosmos-sdk/types.NewCoin({DENOM}#0, {AMT}#0), go-ethereum/common.BytesToAddress({RCV}), {RCV})",
		"CONV":  "aggregate/keeper.(Keeper).ConvertCoin($0, cosmos-sdk/types.WrapSDKContext({CC}#0), {MSG})",
	})

	c.Rule("C11/disable-switch-binding", "aggregate ParamSetPairs: the EnableAggregate store key is bound to the EnableAggregate field (and EnableEVMHook to its own), so a governance parameter change that disables the module really closes the conversion gate", 3)
	paramSetPairsRule(c, "C11/disable-switch-binding", "x/aggregate/types.Params.ParamSetPairs", map[string]string{"EnableAggregate": "fn:aggregate/types.validateBool", "EnableEVMHook": "fn:aggregate/types.validateBool"})

	c.Rule("C11/exact-amount", "every amount-carrying argument of a bank or EVM call in the four conversion functions originates from msg.Coin / msg.Amount through conversions only (no arithmetic, no other source)", 10)
	type site struct{ fn, callee string }
	for _, f := range []string{"convertCoinNativeCoin", "convertERC20NativeCoin", "convertERC20NativeToken", "convertCoinNativeERC20"} {
		fn := c.F(agK + "Keeper." + f)
		for _, cs := range c.P.CallsIn(fn) {
			money := strings.Contains(cs.Name, "BankKeeper.SendCoins") || strings.Contains(cs.Name, "BankKeeper.MintCoins") || strings.Contains(cs.Name, "BankKeeper.BurnCoins") ||
				strings.HasSuffix(cs.Name, "keeper.(Keeper).CallEVM") || strings.HasSuffix(cs.Name, "accounts/abi.(ABI).Pack")
			if !money {
				continue
			}
			if strings.HasSuffix(cs.Name, "keeper.(Keeper).CallEVM") {
				if a := c.P.ArgExprs(cs); len(a) > 5 && (a[5].String() == `"balanceOf"`) {
					continue
				}
			}
			args := c.P.ArgExprs(cs)
			// the amount-carrying argument is the last one (coins / variadic args list)
			last := args[len(args)-1]
			bad := ""
			n := 0
			last.Walk(func(e *Expr) {
				s := e.String()
				if e.Op == "bin" && (e.Name == "+" || e.Name == "-" || e.Name == "*" || e.Name == "/") {
					bad = "arithmetic in an amount argument: " + s
				}
				if strings.HasSuffix(s, "$3.Coin") || strings.HasSuffix(s, "$3.Amount") || strings.HasSuffix(s, "$3.Coin.Amount") {
					n++
				}
			})
			construct := fmt.Sprintf("%s: %s amount", funcName(fn), cs.Name[strings.LastIndex(cs.Name, ".")+1:])
			c.Req(bad == "" && n >= 1, "C11/exact-amount", construct+"@"+c.P.Pos(cs.Ins.Pos()), cs.Ins.Pos(), trunc(last.String()), fmt.Sprintf("amount argument %s does not originate solely from the message's amount (%s)", trunc(last.String()), bad))
		}
	}

	c.Rule("C11/effect-sets", "no conversion function performs a bank effect outside its table: module-owned pair = escrow coin + mint token / burn token + unescrow coin; external pair = transfer token in + mint & pay coin / escrow coin + release token + burn coin", 4)
	wantEffects := map[string][]string{
		"convertCoinNativeCoin":   {"SendCoinsFromAccountToModule"},
		"convertERC20NativeCoin":  {"SendCoinsFromModuleToAccount"},
		"convertERC20NativeToken": {"MintCoins", "SendCoinsFromModuleToAccount"},
		"convertCoinNativeERC20":  {"BurnCoins", "SendCoinsFromAccountToModule"},
	}
	for f, want := range wantEffects {
		fn := c.F(agK + "Keeper." + f)
		got := map[string]int{}
		for _, cs := range c.P.CallsIn(fn) {
			if strings.Contains(cs.Name, "BankKeeper.") {
				m := cs.Name[strings.LastIndex(cs.Name, ".")+1:]
				if strings.HasPrefix(m, "Get") || strings.HasPrefix(m, "Has") || strings.HasPrefix(m, "Is") || m == "BlockedAddr" {
					continue
				}
				got[m]++
			}
		}
		ok := len(got) == len(want)
		for _, w := range want {
			if got[w] != 1 {
				ok = false
			}
		}
		c.Req(ok, "C11/effect-sets", funcName(fn), fn.Pos(), fmt.Sprint(got), fmt.Sprintf("bank effects of %s are %v, required exactly one each of %v", f, got, want))
	}
}
