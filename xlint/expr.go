package main

import (
	"fmt"
	"go/constant"
	"go/token"
	"go/types"
	"os"
	"sort"
	"strconv"
	"strings"

	"golang.org/x/tools/go/ssa"
)

// Expr is the canonical, rename-insensitive abstraction of an SSA value (access path / origin).
type Expr struct {
	Op   string // param const global fn field call invoke bin un extract phi cell lit index slice assert make closure builtin zero up unknown self
	Name string
	Args []*Expr
	Val  ssa.Value // originating value (may be nil)
	str  string
}

func (e *Expr) String() string {
	if e == nil {
		return "<nil>"
	}
	if e.str != "" {
		return e.str
	}
	var s string
	switch e.Op {
	case "param", "const", "global", "fn", "zero", "unknown", "self", "make", "closure":
		s = e.Name
	case "field":
		s = e.Args[0].String() + "." + e.Name
	case "call", "invoke", "builtin":
		s = e.Name + "(" + joinExprs(e.Args, ", ") + ")"
	case "bin":
		s = "(" + e.Args[0].String() + " " + e.Name + " " + e.Args[1].String() + ")"
	case "un":
		s = e.Name + e.Args[0].String()
	case "extract":
		s = e.Args[0].String() + "#" + e.Name
	case "phi":
		if e.Name == "μ" {
			s = "μ{" + joinExprs(e.Args, " | ") + "}"
		} else {
			s = "phi{" + joinExprs(e.Args, " | ") + "}"
		}
	case "cell":
		s = "cell<" + joinExprs(e.Args, " | ") + ">"
	case "lit":
		if len(e.Args) > 12 {
			s = fmt.Sprintf("%s{…%d fields}", e.Name, len(e.Args))
		} else {
			s = e.Name + "{" + joinExprs(e.Args, ", ") + "}"
		}
	case "kv":
		s = e.Name + ": " + e.Args[0].String()
	case "index":
		s = e.Args[0].String() + "[" + e.Args[1].String() + "]"
	case "slice":
		s = e.Args[0].String() + "[" + e.Name + "]"
	case "assert":
		s = e.Args[0].String() + ".(" + e.Name + ")"
	case "upd":
		s = e.Args[0].String() + " with {" + joinExprs(e.Args[1:], ", ") + "}"
	case "list":
		s = "[" + joinExprs(e.Args, ", ") + "]"
	case "up":
		s = "up(" + e.Args[0].String() + ")"
	case "conv":
		s = e.Name + "(" + e.Args[0].String() + ")"
	case "lin":
		s = e.Name
	default:
		s = e.Op + ":" + e.Name
	}
	e.str = s
	return s
}

func joinExprs(es []*Expr, sep string) string {
	ss := make([]string, len(es))
	for i, e := range es {
		ss[i] = e.String()
	}
	return strings.Join(ss, sep)
}

func (e *Expr) Eq(o *Expr) bool { return e != nil && o != nil && e.String() == o.String() }

// IsCall reports whether e is a call to a function whose canonical name has the given suffix.
func (e *Expr) IsCall(nameSuffix string) bool {
	return e != nil && (e.Op == "call" || e.Op == "invoke") && strings.HasSuffix(e.Name, nameSuffix)
}

// Contains reports whether sub occurs (as canonical string of a subtree) inside e.
func (e *Expr) Contains(pred func(*Expr) bool) bool {
	if e == nil {
		return false
	}
	if pred(e) {
		return true
	}
	for _, a := range e.Args {
		if a.Contains(pred) {
			return true
		}
	}
	return false
}

func (e *Expr) Walk(f func(*Expr)) {
	if e == nil {
		return
	}
	f(e)
	for _, a := range e.Args {
		a.Walk(f)
	}
}

// Exprer computes Exprs for one function.
type Exprer struct {
	P      *Program
	Fn     *ssa.Function
	memo   map[ssa.Value]*Expr
	busy   map[ssa.Value]bool
	depth  int
	truncs int
	// selfAlloc: while rendering the initialising call of a cell, arguments that are the cell itself print as "_"
	selfAlloc *ssa.Alloc
}

func (p *Program) Ex(fn *ssa.Function) *Exprer {
	if x := p.exprers[fn]; x != nil {
		return x
	}
	x := &Exprer{P: p, Fn: fn, memo: map[ssa.Value]*Expr{}, busy: map[ssa.Value]bool{}}
	p.exprers[fn] = x
	return x
}

func typeStr(t types.Type) string {
	return types.TypeString(t, func(p *types.Package) string { return short(p.Path()) })
}

func mk(op, name string, v ssa.Value, args ...*Expr) *Expr {
	return &Expr{Op: op, Name: name, Args: args, Val: v}
}

const maxDepth = 40

func stripConv(v ssa.Value) ssa.Value {
	for {
		switch t := v.(type) {
		case *ssa.MakeInterface:
			v = t.X
		case *ssa.ChangeType:
			v = t.X
		case *ssa.ChangeInterface:
			v = t.X
		default:
			return v
		}
	}
}

func (x *Exprer) E(v ssa.Value) *Expr {
	if v == nil {
		return mk("unknown", "<nil-value>", nil)
	}
	if x.selfAlloc != nil && stripConv(v) == ssa.Value(x.selfAlloc) {
		return mk("self", "_", v)
	}
	if e, ok := x.memo[v]; ok {
		return e
	}
	if x.busy[v] {
		return mk("self", "_", v)
	}
	if x.depth > maxDepth {
		x.truncs++
		return mk("unknown", "…", v)
	}
	x.busy[v] = true
	x.depth++
	before := x.truncs
	e := x.compute(v)
	x.depth--
	delete(x.busy, v)
	// do not memoise results that contain a self marker of an outer in-progress value, nor results that were
	// truncated by the depth bound while nested inside another computation (they would differ at top level)
	if x.truncs != before && x.depth > 0 {
		return e
	}
	if len(x.busy) == 0 || !e.Contains(func(s *Expr) bool { return s.Op == "self" }) {
		x.memo[v] = e
	}
	return e
}

func (x *Exprer) compute(v ssa.Value) *Expr {
	switch v := v.(type) {
	case *ssa.Parameter:
		for i, p := range x.Fn.Params {
			if p == v {
				return mk("param", fmt.Sprintf("$%d", i), v)
			}
		}
		return mk("param", "$?"+v.Name(), v)
	case *ssa.FreeVar:
		// resolve through the parent's MakeClosure binding
		if par := x.Fn.Parent(); par != nil {
			idx := -1
			for i, fv := range x.Fn.FreeVars {
				if fv == v {
					idx = i
				}
			}
			if idx >= 0 {
				for _, b := range par.Blocks {
					for _, ins := range b.Instrs {
						if mc, ok := ins.(*ssa.MakeClosure); ok && mc.Fn == x.Fn && idx < len(mc.Bindings) {
							return mk("up", "", v, x.P.Ex(par).E(mc.Bindings[idx]))
						}
					}
				}
			}
		}
		return mk("param", "free:"+v.Name(), v)
	case *ssa.Const:
		return mk("const", constStr(v), v)
	case *ssa.Global:
		return mk("global", "g:"+short(v.Pkg.Pkg.Path())+"."+v.Name(), v)
	case *ssa.Function:
		return mk("fn", "fn:"+funcName(v), v)
	case *ssa.Builtin:
		return mk("fn", "builtin:"+v.Name(), v)
	case *ssa.Alloc:
		return x.cell(v)
	case *ssa.FieldAddr:
		st := derefStruct(v.X.Type())
		return x.mkField(st.Field(v.Field).Name(), v, x.E(v.X))
	case *ssa.Field:
		if ld, ok := v.X.(*ssa.UnOp); ok && ld.Op == token.MUL {
			if al, ok := ld.X.(*ssa.Alloc); ok {
				if e := x.fieldOfAlloc(al, v.Field); e != nil {
					return e
				}
			}
		}
		st := derefStruct(v.X.Type())
		return x.mkField(st.Field(v.Field).Name(), v, x.E(v.X))
	case *ssa.IndexAddr:
		return mkIndex(v, x.E(v.X), x.E(v.Index))
	case *ssa.Index:
		return mkIndex(v, x.E(v.X), x.E(v.Index))
	case *ssa.Lookup:
		// membership in a set kept as map[K]bool (m[k]) or map[K]struct{} (_, ok := m[k]) is the same question
		if mt, ok := v.X.Type().Underlying().(*types.Map); ok && isSetValue(mt.Elem()) {
			if !v.CommaOk {
				if b, isB := mt.Elem().Underlying().(*types.Basic); isB && b.Info()&types.IsBoolean != 0 {
					return mk("builtin", "has", v, x.E(v.X), x.E(v.Index))
				}
			}
		}
		return mk("index", "", v, x.E(v.X), x.E(v.Index))
	case *ssa.UnOp:
		switch v.Op {
		case token.MUL: // load
			if fa, ok := v.X.(*ssa.FieldAddr); ok {
				if al, ok := fa.X.(*ssa.Alloc); ok {
					if e := x.reachingField(al, fa.Field, v); e != nil {
						return e
					}
					if w := x.reachingOfWholeOnly(al, v); w != nil {
						if st := derefStruct(al.Type()); st != nil {
							return x.mkField(st.Field(fa.Field).Name(), v, x.E(w.Val))
						}
					}
					if e := x.fieldOfAlloc(al, fa.Field); e != nil {
						return e
					}
				}
			}
			if al, ok := v.X.(*ssa.Alloc); ok {
				if e := x.reachingWhole(al, v); e != nil {
					return e
				}
				if w := x.reachingOfWholeOnly(al, v); w != nil {
					return x.E(w.Val)
				}
			}
			return x.E(v.X)
		case token.NOT:
			return negate(x.E(v.X))
		case token.ARROW:
			return mk("un", "<-", v, x.E(v.X))
		case token.SUB:
			return mk("bin", "*", v, x.E(v.X), mk("const", "-1", nil)) // -x is x * -1
		default:
			return mk("un", v.Op.String(), v, x.E(v.X))
		}
	case *ssa.BinOp:
		return canonBin(v.Op, x.E(v.X), x.E(v.Y), v)
	case *ssa.Convert:
		if tag := lossyConv(v); tag != "" && os.Getenv("XLINT_NO_CONV") == "" {
			return mk("conv", tag, v, x.E(v.X)) // a conversion that can change the number is part of the value
		}
		return x.E(v.X)
	case *ssa.ChangeType:
		return x.E(v.X)
	case *ssa.ChangeInterface:
		return x.E(v.X)
	case *ssa.MakeInterface:
		return x.E(v.X)
	case *ssa.SliceToArrayPointer:
		return x.E(v.X)
	case *ssa.MultiConvert:
		return x.E(v.X)
	case *ssa.TypeAssert:
		if !v.CommaOk {
			return x.E(v.X) // an unconditional assertion yields the same value (or panics: C15 counts those)
		}
		return mk("assert", typeStr(v.AssertedType), v, x.E(v.X))
	case *ssa.Extract:
		if lk, ok := v.Tuple.(*ssa.Lookup); ok && lk.CommaOk && v.Index == 1 {
			if mt, ok := lk.X.Type().Underlying().(*types.Map); ok && isSetValue(mt.Elem()) {
				return mk("builtin", "has", v, x.E(lk.X), x.E(lk.Index))
			}
		}
		return mk("extract", fmt.Sprint(v.Index), v, x.E(v.Tuple))
	case *ssa.Call:
		return x.callExpr(&v.Call, v)
	case *ssa.Phi:
		seen := map[string]*Expr{}
		loop := false
		for _, e := range v.Edges {
			ee := x.E(e)
			if ee.Contains(func(s *Expr) bool {
				if s.Op != "self" {
					return false
				}
				_, cellMarker := stripConv(s.Val).(*ssa.Alloc) // "_" inside a cell's own initialiser is not a cycle
				return !cellMarker
			}) {
				loop = true // loop-carried edge
				continue
			}
			if ee.Op == "phi" && ee.Name == "μ" && len(ee.Args) == 0 {
				loop = true // the latch merge of this very loop (`if c { acc = f(acc) }` in the body) carries nothing but the loop
				continue
			}
			if ee.Op == "phi" && ee.Name == "" { // flatten
				for _, a := range ee.Args {
					seen[a.String()] = a
				}
				continue
			}
			seen[ee.String()] = ee
		}
		args := sortedExprs(seen)
		if loop {
			// the counter of a loop nested in another loop is named with its bound, so that two inner loops over
			// different lists of the same outer element (Chains[i] / Addresses[j]) are different counters
			if b := x.loopBound(v); b != nil {
				if bs := b.String(); strings.Contains(bs, "μ{") {
					args = append(args, mk("lin", "<"+bs, nil))
				}
			}
			return mk("phi", "μ", v, args...)
		}
		if len(args) == 1 {
			return args[0]
		}
		return mk("phi", "", v, args...)
	case *ssa.Slice:
		if al, ok := v.X.(*ssa.Alloc); ok && v.Low == nil && v.High == nil {
			if _, isArr := al.Type().(*types.Pointer).Elem().Underlying().(*types.Array); isArr {
				if l := x.arrayList(al); l != nil {
					return l
				}
			}
		}
		lo, hi := "", ""
		if v.Low != nil {
			lo = x.E(v.Low).String()
		}
		if v.High != nil {
			hi = x.E(v.High).String()
		}
		if lo == "" && hi == "" {
			return x.E(v.X)
		}
		return mk("slice", lo+":"+hi, v, x.E(v.X))
	case *ssa.MakeSlice:
		if os.Getenv("XLINT_NO_FILL") == "" && x.filledInLoop(v) {
			// `dst := make([]T, n); for i … { dst[i] = e }` builds the same list as `dst := make([]T, 0, n); for … { dst =
			// append(dst, e) }`, whose value is the loop-carried μ{make([]T)}
			return mk("phi", "μ", v, mk("make", "make("+typeStr(v.Type())+")", nil))
		}
		return mk("make", "make("+typeStr(v.Type())+")", v)
	case *ssa.MakeMap:
		if mt, ok := v.Type().Underlying().(*types.Map); ok && isSetValue(mt.Elem()) {
			return mk("make", "make(set["+typeStr(mt.Key())+"])", v)
		}
		return mk("make", "make("+typeStr(v.Type())+")", v)
	case *ssa.MakeChan:
		return mk("make", "make("+typeStr(v.Type())+")", v)
	case *ssa.MakeClosure:
		return mk("closure", "closure:"+funcName(v.Fn.(*ssa.Function)), v)
	case *ssa.Range:
		return mk("un", "range ", v, x.E(v.X))
	case *ssa.Next:
		return mk("un", "next ", v, x.E(v.Iter))
	}
	return mk("unknown", fmt.Sprintf("?%T", v), v)
}

func constStr(c *ssa.Const) string {
	if c.Value == nil {
		if c.IsNil() {
			return "nil"
		}
		return "zero(" + typeStr(c.Type()) + ")"
	}
	if c.Value.Kind() == constant.String {
		return fmt.Sprintf("%q", constant.StringVal(c.Value))
	}
	return c.Value.ExactString()
}

func derefStruct(t types.Type) *types.Struct {
	if p, ok := t.Underlying().(*types.Pointer); ok {
		t = p.Elem()
	}
	st, _ := t.Underlying().(*types.Struct)
	return st
}

// resolveCallee returns the declared function for a static call (looking through wrappers).
func (p *Program) resolveCallee(c *ssa.CallCommon) *ssa.Function {
	fn := c.StaticCallee()
	if fn == nil {
		return nil
	}
	return p.unwrap(fn)
}

func (p *Program) unwrap(fn *ssa.Function) *ssa.Function {
	if fn.Synthetic != "" && fn.Object() != nil {
		if fo, ok := fn.Object().(*types.Func); ok {
			if d := p.SSA.FuncValue(fo); d != nil && d != fn && d.Synthetic == "" {
				return d
			}
		}
	}
	if fn.Origin() != nil {
		return fn.Origin()
	}
	return fn
}

func (x *Exprer) callExpr(c *ssa.CallCommon, v ssa.Value) *Expr {
	var args []*Expr
	if c.IsInvoke() {
		args = append(args, x.E(c.Value))
		for _, a := range c.Args {
			args = append(args, x.E(a))
		}
		// an interface method invoked on a value that was wrapped right here from a known concrete type is that type's
		// method; when that method is a trivial getter the call is the field (h := exported.Height(m.Header.Height);
		// h.GetRevisionHeight()  is  m.Header.Height.RevisionHeight)
		if ct := concreteTypeOf(c.Value, 0); ct != nil && os.Getenv("XLINT_NO_GETTERS") == "" {
			if m := x.P.SSA.LookupMethod(ct, c.Method.Pkg(), c.Method.Name()); m != nil && len(m.Blocks) > 0 {
				if d := x.P.unwrap(m); d != nil && d != x.Fn && x.P.trivialGetter(d) {
					if rets := x.P.RetExprs(d, 0); len(rets) == 1 {
						return substParams(rets[0], args)
					}
				}
			}
		}
		name := "iface:" + ifaceName(c.Value.Type()) + "." + c.Method.Name()
		return canonCall(mk("invoke", name, v, args...))
	}
	for _, a := range c.Args {
		args = append(args, x.E(a))
	}
	if b, ok := c.Value.(*ssa.Builtin); ok {
		// len of a constant string (also behind a []byte conversion, which the compiler does not fold) is its number
		if b.Name() == "len" && len(args) == 1 && args[0].Op == "const" && strings.HasPrefix(args[0].Name, "\"") {
			if u, err := strconv.Unquote(args[0].Name); err == nil {
				return mk("const", strconv.Itoa(len(u)), v)
			}
		}
		return mk("builtin", b.Name(), v, args...)
	}
	if fn := x.P.resolveCallee(c); fn != nil {
		if os.Getenv("XLINT_NO_GETTERS") == "" {
			// protobuf-style getter `if m != nil { return m.F }; return zero` on the address of a variable, field or
			// element (never nil) is the field itself
			if sc := c.StaticCallee(); sc != nil && len(c.Args) == 1 {
				switch c.Args[0].(type) {
				case *ssa.Alloc, *ssa.FieldAddr, *ssa.IndexAddr:
					if f, ok := x.P.nilGuardedGetter(sc); ok {
						return x.mkField(f, v, args[0])
					}
				}
			}
			if sc := c.StaticCallee(); sc != nil && x.P.trivialGetter(sc) && sc != x.Fn {
				if rets := x.P.RetExprs(sc, 0); len(rets) == 1 {
					return substParams(rets[0], args)
				}
			}
		}
		return canonCall(mk("call", funcName(fn), v, args...))
	}
	// dynamic call through a function value
	return mk("call", "dyn:"+x.E(c.Value).String(), v, args...)
}

// concreteTypeOf: the one concrete type an interface value is known to hold: it was wrapped from that type here, or it
// is the result of a function all of whose returns wrap that type (a getter returning a struct field as an interface).
func concreteTypeOf(v ssa.Value, depth int) types.Type {
	if depth > 3 {
		return nil
	}
	switch t := v.(type) {
	case *ssa.MakeInterface:
		if _, isIface := t.X.Type().Underlying().(*types.Interface); isIface {
			return nil
		}
		return t.X.Type()
	case *ssa.ChangeInterface:
		return concreteTypeOf(t.X, depth+1)
	case *ssa.Call:
		sc := t.Call.StaticCallee()
		if sc == nil || len(sc.Blocks) == 0 || sc.Signature.Results().Len() != 1 {
			return nil
		}
		var ct types.Type
		for _, b := range sc.Blocks {
			ret, ok := b.Instrs[len(b.Instrs)-1].(*ssa.Return)
			if !ok || len(ret.Results) != 1 {
				continue
			}
			rt := concreteTypeOf(ret.Results[0], depth+1)
			if rt == nil || (ct != nil && !types.Identical(ct, rt)) {
				return nil
			}
			ct = rt
		}
		return ct
	}
	return nil
}

func ifaceName(t types.Type) string {
	if nt, ok := t.(*types.Named); ok {
		pk := ""
		if nt.Obj().Pkg() != nil {
			pk = short(nt.Obj().Pkg().Path())
		}
		return pk + "." + nt.Obj().Name()
	}
	return typeStr(t)
}

// mkField builds base.name, projecting through literals and through in-repo pure constructors
// (a function whose only return is a struct literal): NewTokenPair(a, d, …).Denoms  ⇒  d.
func (x *Exprer) mkField(name string, v ssa.Value, base *Expr) *Expr {
	if base.Op == "lit" {
		for _, kv := range base.Args {
			if kv.Op == "kv" && kv.Name == name {
				return kv.Args[0]
			}
		}
	}
	if base.Op == "upd" {
		for _, kv := range base.Args[1:] {
			if kv.Op == "kv" && kv.Name == name {
				return kv.Args[0]
			}
		}
		return x.mkField(name, v, base.Args[0])
	}
	if base.Op == "call" {
		if cv, ok := base.Val.(*ssa.Call); ok {
			if fn := x.P.resolveCallee(&cv.Call); fn != nil && inTeleport(fn) && len(fn.Blocks) >= 1 && len(fn.Blocks) <= 8 {
				if rets := x.P.RetExprs(fn, 0); len(rets) == 1 && rets[0].Op == "lit" {
					for _, kv := range rets[0].Args {
						if kv.Op == "kv" && kv.Name == name {
							return substParams(kv.Args[0], base.Args)
						}
					}
				}
			}
		}
	}
	return mk("field", name, v, base)
}

// substParams rewrites $i parameters of a callee expression with the caller's argument expressions.
func substParams(e *Expr, args []*Expr) *Expr {
	if e == nil {
		return nil
	}
	if e.Op == "param" {
		var i int
		if _, err := fmt.Sscanf(e.Name, "$%d", &i); err == nil && i < len(args) {
			return args[i]
		}
		return e
	}
	if len(e.Args) == 0 {
		return e
	}
	na := make([]*Expr, len(e.Args))
	changed := false
	for i, a := range e.Args {
		na[i] = substParams(a, args)
		if na[i] != a {
			changed = true
		}
	}
	if !changed {
		return e
	}
	if e.Op == "field" && len(na) == 1 && theProgram != nil {
		return theProgram.Ex(nil).mkField(e.Name, e.Val, na[0]) // project through literals / constructors again
	}
	if (e.Op == "call" || e.Op == "invoke") && theProgram != nil {
		return canonCall(&Expr{Op: e.Op, Name: e.Name, Args: na, Val: e.Val})
	}
	return reorder(&Expr{Op: e.Op, Name: e.Name, Args: na, Val: e.Val})
}

// theProgram: the program being analysed (for re-canonicalisation after substitution)
var theProgram *Program

// fieldOfAlloc projects a field out of a local struct cell that is only ever populated by field stores
// (composite literal / field assignments): the single value stored to that field, if unambiguous.
func (x *Exprer) fieldOfAlloc(a *ssa.Alloc, field int) *Expr {
	refs := a.Referrers()
	if refs == nil {
		return nil
	}
	var vals []ssa.Value
	for _, r := range *refs {
		switch r := r.(type) {
		case *ssa.Store:
			if r.Addr == a {
				return nil // whole-value store: not a pure literal cell
			}
		case *ssa.FieldAddr:
			if r.Field != field {
				continue
			}
			if rr := r.Referrers(); rr != nil {
				for _, u := range *rr {
					if st, ok := u.(*ssa.Store); ok && st.Addr == r {
						vals = append(vals, st.Val)
					}
				}
			}
		}
	}
	if len(vals) == 0 {
		return nil
	}
	set := map[string]*Expr{}
	for _, v := range vals {
		e := x.E(v)
		set[e.String()] = e
	}
	es := sortedExprs(set)
	if len(es) == 1 {
		return es[0]
	}
	return mk("phi", "", nil, es...)
}

// cell canonicalises an Alloc.
func (x *Exprer) cell(a *ssa.Alloc) *Expr {
	elemT := a.Type().(*types.Pointer).Elem()
	var whole []ssa.Value
	fieldStores := map[int][]ssa.Value{}
	var initCalls []ssa.Instruction
	var scan func(addr ssa.Value, top bool, field int)
	scan = func(addr ssa.Value, top bool, field int) {
		refs := addr.Referrers()
		if refs == nil {
			return
		}
		for _, r := range *refs {
			switch r := r.(type) {
			case *ssa.Store:
				if r.Addr == addr {
					if top {
						whole = append(whole, r.Val)
					} else {
						fieldStores[field] = append(fieldStores[field], r.Val)
					}
				}
			case *ssa.FieldAddr:
				if top {
					scan(r, false, r.Field)
				}
			case *ssa.MakeInterface:
				if top {
					if rr := r.Referrers(); rr != nil {
						for _, u := range *rr {
							if ci, ok := u.(ssa.CallInstruction); ok {
								initCalls = append(initCalls, ci)
							}
						}
					}
				}
			case ssa.CallInstruction:
				if top {
					initCalls = append(initCalls, r)
				}
			}
		}
	}
	scan(a, true, -1)
	tname := typeStr(elemT)
	if len(initCalls) > 0 && len(fieldStores) == 0 {
		// a cell that is filled by a call (decode target) and otherwise only zeroed or copied onto itself — the shape a
		// named result takes — is named by the call, like a plain local
		eff := 0
		for _, w := range whole {
			if c, ok := w.(*ssa.Const); ok && c.Value == nil {
				continue
			}
			if ld, ok := w.(*ssa.UnOp); ok && ld.Op == token.MUL && ld.X == ssa.Value(a) {
				continue
			}
			eff++
		}
		if eff == 0 {
			whole = nil
		}
	}
	switch {
	case len(whole) == 1 && len(fieldStores) == 0:
		return x.E(whole[0])
	case len(whole) >= 1:
		set := map[string]*Expr{}
		for _, w := range whole {
			e := x.E(w)
			set[e.String()] = e
		}
		args := sortedExprs(set)
		if len(fieldStores) > 0 {
			args = append(args, x.fieldLit(tname, elemT, fieldStores, a))
		}
		if len(args) == 1 {
			return args[0]
		}
		return mk("cell", tname, a, args...)
	case len(fieldStores) > 0:
		return x.fieldLit(tname, elemT, fieldStores, a)
	case len(initCalls) > 0:
		// first initialising call in block order
		sort.SliceStable(initCalls, func(i, j int) bool {
			bi, bj := initCalls[i].Block().Index, initCalls[j].Block().Index
			if bi != bj {
				return bi < bj
			}
			return instrIndex(initCalls[i]) < instrIndex(initCalls[j])
		})
		first := initCalls[0]
		var ce *Expr
		if ci, ok := first.(ssa.CallInstruction); ok {
			x.selfAlloc = a
			ce = x.callExpr(ci.Common(), nil)
			x.selfAlloc = nil
		}
		if ce != nil && tname == "math/big.Int" && strings.HasPrefix(ce.Name, "math/big.(*Int).") {
			// z := new(big.Int); z.SetBytes(b)  and  z := new(big.Int).SetBytes(b)  are the same number object
			return ce
		}
		return mk("cell", tname, a, ce)
	}
	return mk("zero", "zero("+tname+")", a)
}

func (x *Exprer) fieldLit(tname string, elemT types.Type, fs map[int][]ssa.Value, v ssa.Value) *Expr {
	st, _ := elemT.Underlying().(*types.Struct)
	idx := make([]int, 0, len(fs))
	for i := range fs {
		idx = append(idx, i)
	}
	sort.Ints(idx)
	var args []*Expr
	for _, i := range idx {
		set := map[string]*Expr{}
		for _, w := range fs[i] {
			e := x.E(w)
			set[e.String()] = e
		}
		vals := sortedExprs(set)
		var val *Expr
		if len(vals) == 1 {
			val = vals[0]
		} else {
			val = mk("phi", "", nil, vals...)
		}
		fname := fmt.Sprint(i)
		if st != nil {
			fname = st.Field(i).Name()
		}
		args = append(args, mk("kv", fname, nil, val))
	}
	return mk("lit", tname, v, args...)
}

func sortedExprs(set map[string]*Expr) []*Expr {
	keys := make([]string, 0, len(set))
	for k := range set {
		keys = append(keys, k)
	}
	sort.Strings(keys)
	out := make([]*Expr, len(keys))
	for i, k := range keys {
		out[i] = set[k]
	}
	return out
}

func instrIndex(ins ssa.Instruction) int {
	for i, in := range ins.Block().Instrs {
		if in == ins {
			return i
		}
	}
	return -1
}

// arrayList recovers the element list of a variadic argument array.
func (x *Exprer) arrayList(al *ssa.Alloc) *Expr {
	arr := al.Type().(*types.Pointer).Elem().Underlying().(*types.Array)
	n := int(arr.Len())
	elems := make([]*Expr, n)
	refs := al.Referrers()
	if refs == nil {
		return nil
	}
	nIdx := 0
	for _, r := range *refs {
		if st, ok := r.(*ssa.Store); ok && st.Addr == ssa.Value(al) {
			return nil // whole-array store: not an element-wise literal
		}
		if _, ok := r.(*ssa.IndexAddr); ok {
			nIdx++
		}
	}
	if nIdx == 0 && n > 0 {
		return nil
	}
	for _, r := range *refs {
		ia, ok := r.(*ssa.IndexAddr)
		if !ok {
			continue
		}
		c, ok := ia.Index.(*ssa.Const)
		if !ok {
			return nil
		}
		i := int(c.Int64())
		if i < 0 || i >= n {
			continue
		}
		fieldStores := map[int][]ssa.Value{}
		if rr := ia.Referrers(); rr != nil {
			for _, u := range *rr {
				switch u := u.(type) {
				case *ssa.Store:
					if u.Addr == ia {
						elems[i] = x.E(u.Val)
					}
				case *ssa.FieldAddr:
					if fr := u.Referrers(); fr != nil {
						for _, w := range *fr {
							if st, ok := w.(*ssa.Store); ok && st.Addr == u {
								fieldStores[u.Field] = append(fieldStores[u.Field], st.Val)
							}
						}
					}
				}
			}
		}
		if elems[i] == nil && len(fieldStores) > 0 {
			elems[i] = x.fieldLit(typeStr(arr.Elem()), arr.Elem(), fieldStores, nil)
		}
	}
	for i := range elems {
		if elems[i] == nil {
			elems[i] = mk("zero", "zero", nil)
		}
	}
	return mk("list", "", al, elems...)
}

// ---- canonicalisation of comparisons -------------------------------------------------------

func negate(e *Expr) *Expr { return lenNorm(negate0(e)) }

func negate0(e *Expr) *Expr {
	if e.Op == "bin" {
		switch e.Name {
		case "==":
			return mk("bin", "!=", e.Val, e.Args...)
		case "!=":
			return mk("bin", "==", e.Val, e.Args...)
		case "<":
			return mk("bin", "<=", e.Val, e.Args[1], e.Args[0])
		case "<=":
			return mk("bin", "<", e.Val, e.Args[1], e.Args[0])
		}
		if strings.HasPrefix(e.Name, "==") {
			return mk("bin", "!="+e.Name[2:], e.Val, e.Args...)
		}
		if strings.HasPrefix(e.Name, "!=") {
			return mk("bin", "=="+e.Name[2:], e.Val, e.Args...)
		}
		if strings.HasPrefix(e.Name, "<=") {
			return mk("bin", "<"+e.Name[2:], e.Val, e.Args[1], e.Args[0])
		}
		if strings.HasPrefix(e.Name, "<") {
			return mk("bin", "<="+e.Name[1:], e.Val, e.Args[1], e.Args[0])
		}
	}
	if e.Op == "un" && e.Name == "!" {
		return e.Args[0]
	}
	if e.Op == "const" {
		if e.Name == "true" {
			return mk("const", "false", nil)
		}
		if e.Name == "false" {
			return mk("const", "true", nil)
		}
	}
	return mk("un", "!", nil, e)
}

func isIntegerExpr(v ssa.Value) bool {
	if v == nil {
		return false
	}
	b, ok := v.Type().Underlying().(*types.Basic)
	return ok && b.Info()&types.IsInteger != 0
}

// lenNorm: len(x) is never negative, so  0 < len(x), 1 <= len(x)  are  0 != len(x);  len(x) < 1, len(x) <= 0  are  0 == len(x).
func lenNorm(e *Expr) *Expr {
	if e == nil || e.Op != "bin" || len(e.Args) != 2 || (e.Name != "<" && e.Name != "<=") {
		return e
	}
	isLen := func(x *Expr) bool { return x.Op == "builtin" && x.Name == "len" }
	isK := func(x *Expr, k string) bool { return (x.Op == "const" || x.Op == "lin") && x.Name == k }
	a, b := e.Args[0], e.Args[1]
	switch {
	case isLen(b) && ((e.Name == "<" && isK(a, "0")) || (e.Name == "<=" && isK(a, "1"))):
		return mk("bin", "!=", e.Val, mk("const", "0", nil), b)
	case isLen(a) && ((e.Name == "<" && isK(b, "1")) || (e.Name == "<=" && isK(b, "0"))):
		return mk("bin", "==", e.Val, mk("const", "0", nil), a)
	}
	return e
}

func canonBin(op token.Token, a, b *Expr, v ssa.Value) *Expr {
	// the index of a `for i := range xs` loop is built as phi(-1, i)+1; it is the same counter as `for i := 0; …; i++`
	if op == token.ADD && a.Op == "phi" && a.Name == "μ" && len(a.Args) >= 1 && len(a.Args) <= 2 && a.Args[0].Op == "const" && a.Args[0].Name == "-1" && b.Op == "const" && b.Name == "1" &&
		(len(a.Args) == 1 || a.Args[1].Op == "lin") {
		return mk("phi", "μ", v, append([]*Expr{mk("const", "0", nil)}, a.Args[1:]...)...)
	}
	return lenNorm(canonBin0(op, a, b, v))
}

func canonBin0(op token.Token, a, b *Expr, v ssa.Value) *Expr {
	switch op {
	case token.GTR:
		return cmpRewrite(mk("bin", "<", v, b, a))
	case token.GEQ:
		return cmpRewrite(mk("bin", "<=", v, b, a))
	case token.LSS:
		return cmpRewrite(mk("bin", "<", v, a, b))
	case token.LEQ:
		return cmpRewrite(mk("bin", "<=", v, a, b))
	case token.EQL, token.NEQ:
		name := "=="
		if op == token.NEQ {
			name = "!="
		}
		// bool comparisons with constants
		if b.Op == "const" && (b.Name == "true" || b.Name == "false") {
			pos := (b.Name == "true") == (op == token.EQL)
			if pos {
				return a
			}
			return negate(a)
		}
		// s == "" is len(s) == 0
		if b.Op == "const" && b.Name == `""` {
			return mk("bin", name, v, mk("lin", "0", nil), mk("lin", "len("+a.String()+")", nil))
		}
		if a.Op == "const" && a.Name == `""` {
			return mk("bin", name, v, mk("lin", "0", nil), mk("lin", "len("+b.String()+")", nil))
		}
		// x.Cmp(y) ⋄ 0 is a comparison of x and y
		isCmpCall := func(c *Expr) bool {
			return c.Op == "call" && (strings.HasSuffix(c.Name, ").Cmp") || strings.HasSuffix(c.Name, "bytes.Compare")) && len(c.Args) == 2
		}
		if (isCmpCall(a) && b.Op == "const" && b.Name == "0") || (isCmpCall(b) && a.Op == "const" && a.Name == "0") {
			return cmpRewrite(mk("bin", name, v, a, b))
		}
		// linear normal form for integer equalities
		if bo, ok := v.(*ssa.BinOp); ok && isIntegerExpr(bo.X) {
			if l := linearEq(name, a, b, v); l != nil {
				return cmpRewrite(l)
			}
		}
		if a.String() > b.String() || a.Op == "const" {
			if !(b.Op == "const") {
				a, b = b, a
			}
		}
		return cmpRewrite(mk("bin", name, v, a, b))
	}
	return mk("bin", op.String(), v, a, b)
}

// linearEq moves +/- constant terms of an integer (in)equality to canonical sides.
func linearEq(name string, a, b *Expr, v ssa.Value) *Expr {
	type term struct {
		e   *Expr
		neg bool
	}
	var terms []term
	var k int64
	ok := true
	var collect func(e *Expr, neg bool)
	collect = func(e *Expr, neg bool) {
		if e.Op == "bin" && (e.Name == "+" || e.Name == "-") {
			collect(e.Args[0], neg)
			collect(e.Args[1], neg != (e.Name == "-"))
			return
		}
		if e.Op == "const" {
			var n int64
			if _, err := fmt.Sscan(e.Name, &n); err == nil {
				if neg {
					k -= n
				} else {
					k += n
				}
				return
			}
		}
		terms = append(terms, term{e, neg})
	}
	collect(a, false)
	collect(b, true)
	if !ok {
		return nil
	}
	var pos, negs []string
	for _, t := range terms {
		if t.neg {
			negs = append(negs, t.e.String())
		} else {
			pos = append(pos, t.e.String())
		}
	}
	sort.Strings(pos)
	sort.Strings(negs)
	// orientation: the lexicographically smaller side goes left
	l, r := strings.Join(pos, " + "), strings.Join(negs, " + ")
	if l == "" {
		l = "0"
	}
	if r == "" {
		r = "0"
	}
	if l > r {
		l, r = r, l
		k = -k
	}
	// l + k  name  r
	if k > 0 {
		if l == "0" {
			l = fmt.Sprintf("%d", k)
		} else {
			l = fmt.Sprintf("%s + %d", l, k)
		}
	} else if k < 0 {
		if r == "0" {
			r = fmt.Sprintf("%d", -k)
		} else {
			r = fmt.Sprintf("%s + %d", r, -k)
		}
	}
	return mk("bin", name, v, mk("lin", l, nil), mk("lin", r, nil))
}

// cmpRewrite turns x.Cmp(y) ⋄ 0 into a direct comparison.
func cmpRewrite(e *Expr) *Expr {
	if e.Op != "bin" || len(e.Args) != 2 {
		return e
	}
	a, b := e.Args[0], e.Args[1]
	isCmp := func(c *Expr) bool {
		return c.Op == "call" && (strings.HasSuffix(c.Name, ").Cmp") || strings.HasSuffix(c.Name, "bytes.Compare")) && len(c.Args) == 2
	}
	isZero := func(c *Expr) bool { return (c.Op == "const" || c.Op == "lin") && c.Name == "0" }
	switch {
	case isCmp(a) && isZero(b):
		return orderPair(e.Name+"c", a.Args[0], a.Args[1], e.Val)
	case isCmp(b) && isZero(a):
		// 0 < cmp(x,y)  ==  y < x
		switch e.Name {
		case "<", "<=":
			return mk("bin", e.Name+"c", e.Val, b.Args[1], b.Args[0])
		default:
			return orderPair(e.Name+"c", b.Args[0], b.Args[1], e.Val)
		}
	}
	return e
}

func orderPair(name string, a, b *Expr, v ssa.Value) *Expr {
	if (strings.HasPrefix(name, "==") || strings.HasPrefix(name, "!=")) && a.String() > b.String() {
		a, b = b, a
	}
	return mk("bin", name, v, a, b)
}

// canonCall interprets the repository's comparison helpers.
func canonCall(c *Expr) *Expr {
	n := c.Name
	last := n
	if i := strings.LastIndex(n, "."); i >= 0 {
		last = n[i+1:]
	}
	two := len(c.Args) == 2
	// math/big: z.Op(x, y) stores the result in z and returns z; the previous value of the receiver does not matter
	// (big.NewInt(0).Add(a, b) and new(big.Int).Add(a, b) are the same number)
	if strings.HasPrefix(n, "math/big.(*Int).") && len(c.Args) >= 2 {
		switch last {
		case "Add", "Sub", "Mul", "Quo", "Div", "Rem", "Mod", "Neg", "Abs", "Set", "SetBytes", "SetUint64", "SetInt64", "Lsh", "Rsh", "Exp", "And", "Or", "Xor", "Not", "Sqrt":
			na := append([]*Expr{mk("const", "_", nil)}, c.Args[1:]...)
			c = &Expr{Op: c.Op, Name: c.Name, Args: na, Val: c.Val}
		}
	}
	if n == "go-ethereum/common.HexToAddress" && len(c.Args) == 1 && c.Args[0].Op == "call" && len(c.Args[0].Args) == 1 &&
		(c.Args[0].Name == "go-ethereum/common.(Address).String" || c.Args[0].Name == "go-ethereum/common.(Address).Hex") {
		return c.Args[0].Args[0] // parsing the printed form of an address gives the address back
	}
	// crypto.Keccak256Hash(xs...).Bytes() are the 32 bytes crypto.Keccak256(xs...) returns
	if n == "go-ethereum/common.(Hash).Bytes" && len(c.Args) == 1 && c.Args[0].Op == "call" && c.Args[0].Name == "go-ethereum/crypto.Keccak256Hash" {
		return &Expr{Op: "call", Name: "go-ethereum/crypto.Keccak256", Args: c.Args[0].Args, Val: c.Val}
	}
	switch {
	case n == "bytes.Equal" && two:
		a0, a1 := c.Args[0], c.Args[1]
		// h1.Bytes() equals h2.Bytes() exactly when the fixed-size values h1 and h2 are equal
		isBytesOf := func(e *Expr) bool {
			return e.Op == "call" && len(e.Args) == 1 && (e.Name == "go-ethereum/common.(Hash).Bytes" || e.Name == "go-ethereum/common.(Address).Bytes")
		}
		if isBytesOf(a0) && isBytesOf(a1) && a0.Name == a1.Name {
			a0, a1 = a0.Args[0], a1.Args[0]
		}
		return orderPair("==", a0, a1, c.Val) // same relation as == on arrays of bytes
	case two && (strings.Contains(n, "Height)") || strings.Contains(n, "exported.Height.")) && isOrd(last):
		return ordRewrite(last, "H", c)
	case two && (strings.HasPrefix(n, "cosmos-sdk/types.(Int)") || strings.HasPrefix(n, "cosmos-sdk/types.(Dec)") || strings.HasPrefix(n, "cosmos-sdk/types.(Uint)")) && isOrd(last):
		return ordRewrite(last, "i", c)
	case two && strings.HasPrefix(n, "time.(Time)") && (last == "After" || last == "Before" || last == "Equal"):
		switch last {
		case "After":
			return mk("bin", "<t", c.Val, c.Args[1], c.Args[0])
		case "Before":
			return mk("bin", "<t", c.Val, c.Args[0], c.Args[1])
		default:
			return orderPair("==t", c.Args[0], c.Args[1], c.Val)
		}
	}
	return c
}

func isOrd(m string) bool {
	switch m {
	case "LT", "LTE", "GT", "GTE", "EQ", "Equal":
		return true
	}
	return false
}

func ordRewrite(m, suffix string, c *Expr) *Expr {
	a, b := c.Args[0], c.Args[1]
	switch m {
	case "LT":
		return mk("bin", "<"+suffix, c.Val, a, b)
	case "LTE":
		return mk("bin", "<="+suffix, c.Val, a, b)
	case "GT":
		return mk("bin", "<"+suffix, c.Val, b, a)
	case "GTE":
		return mk("bin", "<="+suffix, c.Val, b, a)
	default:
		return orderPair("=="+suffix, a, b, c.Val)
	}
}

// trivialGetter: an in-repository function that is one straight line of field reads, conversions and calls to functions
// outside the repository, returning a single value (p.SrcChain, common.HexToAddress(tp.ERC20Address), …).  Such a
// function and its spelled-out body are the same expression; the canonical form always uses the body.
// keepOpaqueGetter: getters that stay named because sibling implementations compute them differently and the rules
// compare the siblings by that name (ETH: a stored field; BSC: derived from the validator set).
var keepOpaqueGetter = map[string]bool{"GetDelayBlock": true}

func (p *Program) trivialGetter(fn *ssa.Function) bool {
	if v, ok := p.trivial[fn]; ok {
		return v
	}
	ok := len(fn.Blocks) == 1 && fn.Signature.Results().Len() == 1 && len(fn.FreeVars) == 0 && !isGeneratedFn(p, fn) && !keepOpaqueGetter[fn.Name()]
	external := !inTeleport(fn) // a dependency's getter: only plain field paths and conversions (no calls at all)
	ncalls, nin := 0, 0
	if ok {
		for _, ins := range fn.Blocks[0].Instrs {
			switch t := ins.(type) {
			case *ssa.Alloc, *ssa.FieldAddr, *ssa.Field, *ssa.Convert, *ssa.ChangeType, *ssa.Return, *ssa.MakeInterface, *ssa.ChangeInterface:
			case *ssa.UnOp:
				if t.Op != token.MUL {
					ok = false
				}
			case *ssa.Store:
				if _, isAlloc := t.Addr.(*ssa.Alloc); !isAlloc {
					ok = false
				}
				if _, isParam := t.Val.(*ssa.Parameter); !isParam {
					ok = false
				}
			case *ssa.Call:
				callee := t.Call.StaticCallee()
				if t.Call.IsInvoke() || callee == nil || external {
					ok = false
					break
				}
				if inTeleport(callee) {
					nin++ // delegation to other functions of the repository (h.ToEthHeader().Hash())
				} else {
					ncalls++ // at most one conversion-like call into a dependency (no store access chains)
				}
				if ncalls > 1 || nin > 3 {
					ok = false
				}
				for _, a := range t.Call.Args {
					if _, isPtr := a.Type().Underlying().(*types.Pointer); isPtr {
						if _, fresh := a.(*ssa.Call); !fresh {
							ok = false // may write through the pointer (a pointer just returned by a call is fine)
						}
					}
				}
				if refs := t.Referrers(); refs == nil || len(*refs) == 0 {
					ok = false // called for its effect (sort.Sort(x); return x), not for its value
				}
			default:
				ok = false
			}
		}
	}
	if ok {
		// the only cells are spilled parameters (a getter that fills a local through a pointer is not a pure projection)
		for _, ins := range fn.Blocks[0].Instrs {
			al, isAlloc := ins.(*ssa.Alloc)
			if !isAlloc {
				continue
			}
			spilled := false
			if refs := al.Referrers(); refs != nil {
				for _, r := range *refs {
					if st, isSt := r.(*ssa.Store); isSt && st.Addr == ssa.Value(al) {
						if _, isParam := st.Val.(*ssa.Parameter); isParam {
							spilled = true
						}
					}
				}
			}
			if !spilled {
				ok = false
			}
		}
	}
	p.trivial[fn] = ok
	return ok
}

// isSetValue: the element type of a map used as a set (bool or empty struct).
func isSetValue(t types.Type) bool {
	switch u := t.Underlying().(type) {
	case *types.Basic:
		return u.Info()&types.IsBoolean != 0
	case *types.Struct:
		return u.NumFields() == 0
	}
	return false
}

// mkIndex: element k of a list written out in place is that element (`coins := Coins{c}; coins[0]` is c).
func mkIndex(v ssa.Value, base, idx *Expr) *Expr {
	if base.Op == "list" && idx.Op == "const" {
		var k int
		if _, err := fmt.Sscanf(idx.Name, "%d", &k); err == nil && k >= 0 && k < len(base.Args) {
			return base.Args[k]
		}
	}
	return mk("index", "", v, base, idx)
}

// ---- position-sensitive reading of a struct cell that is assigned as a whole and then patched field by field ----
// (`pair, _ := k.GetTokenPair(id); pair.ERC20Address = addr; use(pair)`).  Only the mixed case is handled here, and only
// when every store to the cell dominates the read and the address never escapes; everything else keeps the
// order-insensitive rendering.

type cellStores struct {
	whole  []*ssa.Store
	fields map[int][]*ssa.Store
	ok     bool
}

func (x *Exprer) storesOf(a *ssa.Alloc) cellStores {
	cs := cellStores{fields: map[int][]*ssa.Store{}, ok: true}
	refs := a.Referrers()
	if refs == nil {
		cs.ok = false
		return cs
	}
	for _, r := range *refs {
		switch r := r.(type) {
		case *ssa.Store:
			if r.Addr == ssa.Value(a) {
				cs.whole = append(cs.whole, r)
			} else {
				cs.ok = false // the address itself is stored somewhere
			}
		case *ssa.FieldAddr:
			if rr := r.Referrers(); rr != nil {
				for _, u := range *rr {
					switch u := u.(type) {
					case *ssa.Store:
						if u.Addr == ssa.Value(r) {
							cs.fields[r.Field] = append(cs.fields[r.Field], u)
						} else {
							cs.ok = false
						}
					case *ssa.UnOp:
					default:
						cs.ok = false // nested field address, call with the field's address, …
					}
				}
			}
		case *ssa.UnOp:
		default:
			cs.ok = false // the cell's address escapes (decode target, method with pointer receiver, …)
		}
	}
	if len(cs.whole) == 0 || len(cs.fields) == 0 {
		cs.ok = false // not the mixed case
	}
	return cs
}

func precedes(a, b ssa.Instruction) bool {
	if a.Block() == b.Block() {
		return instrIndex(a) < instrIndex(b)
	}
	return domOf(a.Parent()).dominates(a.Block(), b.Block())
}

// mayReach: some control-flow path leads from a to b.
func mayReach(a, b ssa.Instruction) bool {
	ab, bb := a.Block(), b.Block()
	seen := map[*ssa.BasicBlock]bool{}
	st := append([]*ssa.BasicBlock(nil), ab.Succs...)
	if ab == bb && instrIndex(a) < instrIndex(b) {
		return true
	}
	for len(st) > 0 {
		x := st[len(st)-1]
		st = st[:len(st)-1]
		if seen[x] {
			continue
		}
		seen[x] = true
		if x == bb {
			return true
		}
		st = append(st, x.Succs...)
	}
	return false
}

// latestBefore: all stores that can reach the read precede it; returns the one that all others precede (nil if not totally ordered).
func latestBefore(stores []*ssa.Store, read ssa.Instruction) *ssa.Store {
	var last *ssa.Store
	for _, s := range stores {
		if !mayReach(s, read) {
			continue // a store on a path that never gets to the read (e.g. the zero value written before an error return)
		}
		if !precedes(s, read) {
			return nil
		}
		if last == nil || precedes(last, s) {
			last = s
		} else if !precedes(s, last) {
			return nil
		}
	}
	return last
}

func (x *Exprer) reachingField(a *ssa.Alloc, field int, read *ssa.UnOp) *Expr {
	cs := x.storesOf(a)
	if !cs.ok {
		return nil
	}
	all := append(append([]*ssa.Store(nil), cs.whole...), cs.fields[field]...)
	last := latestBefore(all, read)
	if last == nil {
		return nil
	}
	if last.Addr == ssa.Value(a) {
		st := derefStruct(a.Type())
		return x.mkField(st.Field(field).Name(), read, x.E(last.Val))
	}
	return x.E(last.Val)
}

// reachingOfWholeOnly: a struct variable that is only ever assigned as a whole, more than once (the result variable an
// inlined helper fills on each of its return paths): the one assignment that reaches this read, if there is exactly one
// and it dominates the read.
func (x *Exprer) reachingOfWholeOnly(a *ssa.Alloc, read *ssa.UnOp) *ssa.Store {
	refs := a.Referrers()
	if refs == nil || derefStruct(a.Type()) == nil {
		return nil
	}
	var whole []*ssa.Store
	for _, r := range *refs {
		switch r := r.(type) {
		case *ssa.Store:
			if r.Addr != ssa.Value(a) {
				return nil
			}
			whole = append(whole, r)
		case *ssa.FieldAddr:
			if rr := r.Referrers(); rr != nil {
				for _, u := range *rr {
					if _, isLoad := u.(*ssa.UnOp); !isLoad {
						return nil
					}
				}
			}
		case *ssa.UnOp:
		default:
			return nil
		}
	}
	if len(whole) < 2 {
		return nil
	}
	var reaching []*ssa.Store
	for _, s := range whole {
		if mayReach(s, read) {
			reaching = append(reaching, s)
		}
	}
	if len(reaching) != 1 || !precedes(reaching[0], read) {
		return nil
	}
	return reaching[0]
}

func (x *Exprer) reachingWhole(a *ssa.Alloc, read *ssa.UnOp) *Expr {
	cs := x.storesOf(a)
	if !cs.ok {
		return nil
	}
	w := latestBefore(cs.whole, read)
	if w == nil {
		return nil
	}
	st := derefStruct(a.Type())
	if st == nil {
		return nil
	}
	var idx []int
	for f := range cs.fields {
		idx = append(idx, f)
	}
	sort.Ints(idx)
	args := []*Expr{x.E(w.Val)}
	for _, f := range idx {
		var after []*ssa.Store
		for _, s := range cs.fields[f] {
			if !mayReach(s, read) {
				continue
			}
			if precedes(s, read) && precedes(w, s) {
				after = append(after, s)
			} else if !precedes(s, w) && !precedes(read, s) {
				return nil // a field store that may or may not have happened
			}
		}
		if len(after) == 0 {
			continue
		}
		last := latestBefore(after, read)
		if last == nil {
			return nil
		}
		args = append(args, mk("kv", st.Field(f).Name(), nil, x.E(last.Val)))
	}
	if len(args) == 1 {
		return args[0]
	}
	return mk("upd", typeStr(a.Type()), read, args...)
}

// nilGuardedGetter recognises `func (m *T) GetF() X { if m != nil { return m.F }; return zero }` and returns F.
func (p *Program) nilGuardedGetter(fn *ssa.Function) (string, bool) {
	if r, ok := p.nilGetter[fn]; ok {
		return r, r != ""
	}
	field := ""
	defer func() { p.nilGetter[fn] = field }()
	if len(fn.Blocks) != 3 || len(fn.Params) != 1 || fn.Signature.Results().Len() != 1 {
		return "", false
	}
	iff, ok := fn.Blocks[0].Instrs[len(fn.Blocks[0].Instrs)-1].(*ssa.If)
	if !ok || len(fn.Blocks[0].Instrs) != 2 {
		return "", false
	}
	bo, ok := iff.Cond.(*ssa.BinOp)
	if !ok || bo.Op != token.NEQ || bo.X != ssa.Value(fn.Params[0]) || !isNilConst(bo.Y) {
		return "", false
	}
	then, els := fn.Blocks[0].Succs[0], fn.Blocks[0].Succs[1]
	// then: &m.F ; load ; return
	if len(then.Instrs) != 3 || len(els.Instrs) != 1 {
		return "", false
	}
	fa, ok1 := then.Instrs[0].(*ssa.FieldAddr)
	ld, ok2 := then.Instrs[1].(*ssa.UnOp)
	rt, ok3 := then.Instrs[2].(*ssa.Return)
	re, ok4 := els.Instrs[0].(*ssa.Return)
	if !ok1 || !ok2 || !ok3 || !ok4 || fa.X != ssa.Value(fn.Params[0]) || ld.Op != token.MUL || ld.X != ssa.Value(fa) || len(rt.Results) != 1 || rt.Results[0] != ssa.Value(ld) || len(re.Results) != 1 {
		return "", false
	}
	if _, isConst := re.Results[0].(*ssa.Const); !isConst {
		return "", false
	}
	st := derefStruct(fa.X.Type())
	if st == nil {
		return "", false
	}
	field = st.Field(fa.Field).Name()
	return field, true
}

// loopBound finds the bound the loop counter is tested against in its header (`i < len(xs)` / `i+1 < len(xs)`).
func (x *Exprer) loopBound(ph *ssa.Phi) *Expr {
	for _, ins := range ph.Block().Instrs {
		bo, ok := ins.(*ssa.BinOp)
		if !ok || bo.Op != token.LSS {
			continue
		}
		base := bo.X
		if add, isAdd := base.(*ssa.BinOp); isAdd && add.Op == token.ADD {
			base = add.X
		}
		if base != ssa.Value(ph) {
			continue
		}
		if x.busy[bo.Y] {
			return nil
		}
		return x.E(bo.Y)
	}
	// range loops test in the header block of the body: look one block ahead
	for _, s := range ph.Block().Succs {
		for _, ins := range s.Instrs {
			bo, ok := ins.(*ssa.BinOp)
			if !ok || bo.Op != token.LSS {
				continue
			}
			base := bo.X
			if add, isAdd := base.(*ssa.BinOp); isAdd && add.Op == token.ADD {
				base = add.X
			}
			if base == ssa.Value(ph) && !x.busy[bo.Y] {
				return x.E(bo.Y)
			}
		}
	}
	return nil
}

// filledInLoop: the freshly made slice is assigned element by element inside a loop (dst[i] = e).
func (x *Exprer) filledInLoop(m *ssa.MakeSlice) bool {
	if m.Referrers() == nil || x.P == nil {
		return false
	}
	fa := x.P.FA(m.Parent())
	for _, r := range *m.Referrers() {
		ia, ok := r.(*ssa.IndexAddr)
		if !ok || ia.X != ssa.Value(m) || ia.Referrers() == nil {
			continue
		}
		for _, u := range *ia.Referrers() {
			if st, ok := u.(*ssa.Store); ok && st.Addr == ssa.Value(ia) && fa.inCycle(st.Block()) && !fa.inCycle(m.Block()) {
				return true
			}
		}
	}
	return false
}
