package main

import (
	"fmt"
	"go/token"
	"strings"

	"golang.org/x/tools/go/ssa"
)

func init() { register("C03", c03) }

// macros of the xibc msg server (x/xibc/keeper/msg_server.go)
var msM = Macros{
	"CTX":   "cosmos-sdk/types.UnwrapSDKContext($1)",
	"PKT":   "cell<packet/types.(*Packet).ABIDecode(_, $2.Packet)>",
	"ACK":   "cell<packet/types.(*Acknowledgement).ABIDecode(_, $2.Acknowledgement)>",
	"KRECV": "packet/keeper.(Keeper).RecvPacket($0.PacketKeeper, {CTX}, $2)",
	"KACK":  "packet/keeper.(Keeper).AcknowledgePacket($0.PacketKeeper, {CTX}, $2)",
	"CC":    "cosmos-sdk/types.(Context).CacheContext({CTX})",
	"REL":   "client/keeper.(Keeper).GetRelayerAddressOnOtherChain($0.ClientKeeper, {CTX}, {PKT}.SrcChain, $2.Signer)",
	"CALL":  "packet/keeper.(Keeper).CallPacket($0.PacketKeeper, {CC}#0, \"onRecvPacket\", [{PKT}])",
	"RES":   "cell<accounts/abi.(ABI).UnpackIntoInterface(g:syscontracts/xibc_packet.PacketContract.ABI, _, \"onRecvPacket\", {CALL}#0.Ret)>",
	"DST":   "{PKT}.DstChain",
	"SRC":   "{PKT}.SrcChain",
}

// notReachableFromEdge: block of `at` is not reachable from the successor taken when cond holds.
func (c *Check) notReachableFromEdge(fn *ssa.Function, rule, label string, m Macros, cond string, at ssa.Instruction) {
	fa := c.P.FA(fn)
	cond = m.X(cond)
	found := false
	for _, i := range fa.ifs {
		ce := fa.X.E(i.Cond)
		var succ *ssa.BasicBlock
		if ce.String() == cond {
			succ = i.Block().Succs[0]
		} else if negate(ce).String() == cond {
			succ = i.Block().Succs[1]
		}
		if succ == nil {
			continue
		}
		found = true
		reach := fa.reachFrom(succ)
		c.Req(!reach[at.Block().Index], rule, funcName(fn)+"/"+label+" not reachable from "+m.Fold(cond), at.Pos(), "", fmt.Sprintf("%s is reachable from the branch edge [%s]", label, m.Fold(cond)))
	}
	if !found {
		c.Bad(rule, funcName(fn)+"/"+label+" not reachable from "+m.Fold(cond), at.Pos(), "no branch on "+m.Fold(cond)+" exists in "+funcName(fn))
	}
}

func c03(c *Check) {
	c.Declined = []string{
		"conservation arithmetic inside the endpoint/packet contracts (byte code only, no EVM analyser in the sandbox)",
		"multi-chain histories (escrow = minted + in flight) — runtime quantities",
		"that ethermint ApplyMessage(commit=true) has committed state when PostTxProcessing fails (read once in ethermint, trusted)",
	}
	c.Trusted = []string{"cosmos-sdk CacheContext: writes on the cache context are discarded unless write() is called", "ethermint ApplyMessage / PostTxProcessing", "go/ssa"}
	m := msM
	ms := c.F(xibcK + "Keeper.RecvPacket")

	c.Rule("C03/receipt-on-the-outer-context", "msg server RecvPacket: the packet keeper's RecvPacket (proof check + receipt) runs on the transaction's own context, not on the cache context that is discarded when the callback fails: a failed delivery keeps its receipt, so it cannot be delivered again after its refund", 1)
	for _, cs := range c.Calls(ms, "packet/keeper.(Keeper).RecvPacket") {
		c.ArgIs(cs, "C03/receipt-on-the-outer-context", "RecvPacket.ctx", m, 1, "{CTX}")
	}
	c.Rule("C03/cache-discipline", "msg server RecvPacket: the destination callback runs on the cache context; write() is never reachable from the callback's error edge; the error acknowledgement is written on the outer context", 5)
	calls := c.Calls(ms, "keeper.(Keeper).CallPacket")
	c.Req(len(calls) == 1, "C03/cache-discipline", "one onRecvPacket CallPacket site", ms.Pos(), "", fmt.Sprintf("%d CallPacket sites in msg-server RecvPacket", len(calls)))
	var callExpr string
	for _, cs := range calls {
		c.ArgIs(cs, "C03/cache-discipline", "onRecvPacket.ctx", m, 1, "{CC}#0")
		c.ArgIs(cs, "C03/cache-discipline", "onRecvPacket.method", m, 2, "\"onRecvPacket\"")
		c.ArgIs(cs, "C03/cache-discipline", "onRecvPacket.packet", m, 3, "[{PKT}]")
		callExpr = fa0(c, cs)
	}
	writes := c.Calls(ms, m.X("dyn:{CC}#1"))
	c.Req(len(writes) >= 1, "C03/cache-discipline", "write() site(s)", ms.Pos(), fmt.Sprintf("%d write() site(s), each checked below", len(writes)), "no write() site: the callback's effects are never kept")
	for _, w := range writes {
		c.notReachableFromEdge(ms, "C03/cache-discipline", "write()", m, "("+callExpr+"#1 != nil)", w.Ins)
	}
	for i, cs := range c.Calls(ms, "keeper.(Keeper).WriteAcknowledgement") {
		if c.P.FA(ms).PathCondStrings(cs.Ins.Block())["("+callExpr+"#1 != nil)"] {
			c.ArgIs(cs, "C03/cache-discipline", fmt.Sprintf("error-ack#%d.ctx", i), m, 1, "{CTX}")
		}
	}

	c.Rule("C03/error-result-leaves-no-effect", "the cache context of the destination callback is flushed only when the contract's result code is zero: an acknowledgement carrying a non-zero result code makes the source refund, so nothing the callback did may be kept (the packet contract returns error codes without reverting the transfer step)", 1)
	for _, w := range writes {
		c.notReachableFromEdge(ms, "C03/error-result-leaves-no-effect", "write()", m, "(0 != {RES}.Code)", w.Ins)
	}

	c.Rule("C03/handled-error-needs-cache", "every call site of CallPacket/CallEVM/CallEVMWithData (packet and aggregate keepers) either propagates the error to the message result or runs on a cache-derived context", 15)
	targets := map[*ssa.Function]bool{}
	for _, s := range []string{pkKeeper + "Keeper.CallPacket", pkKeeper + "Keeper.CallEVM", pkKeeper + "Keeper.CallEVMWithData", "x/aggregate/keeper.Keeper.CallEVM", "x/aggregate/keeper.Keeper.CallEVMWithData"} {
		targets[c.F(s)] = true
	}
	for fn := range c.P.AllFuncs {
		if !inScope(fn) || len(fn.Blocks) == 0 {
			continue
		}
		k := 0
		for _, cs := range c.P.CallsInOwn(fn) {
			f := c.P.resolveCallee(cs.Ins.Common())
			if f == nil || !targets[f] {
				continue
			}
			k++
			args := c.P.ArgExprs(cs)
			cached := len(args) > 1 && strings.Contains(args[1].String(), "CacheContext(")
			label := fmt.Sprintf("%s#%d", f.Name(), k)
			if cached {
				c.Ok("C03/handled-error-needs-cache", funcName(fn)+"/"+label, cs.Ins.Pos(), "runs on a cache context")
				continue
			}
			// audited exception (one named symbol, machine-checked side condition): the ERC-20 view call in balanceOf
			if funcName(fn) == "aggregate/keeper.(Keeper).balanceOf" && len(args) > 5 && args[5].String() == `"balanceOf"` {
				c.Ok("C03/handled-error-needs-cache", funcName(fn)+"/"+label, cs.Ins.Pos(), "audited: constant view method \"balanceOf\"; a failure yields a nil balance which fails the enclosing conversion message (C11)")
				continue
			}
			if !errPropQuiet(c, cs) {
				c.Bad("C03/handled-error-needs-cache", funcName(fn)+"/"+label, cs.Ins.Pos(), fmt.Sprintf("%s runs on the transaction context and its error is handled locally (not returned): ApplyMessage has already committed EVM state when a post-transaction hook fails, so the effects survive while the caller carries on", cs.Name))
			} else {
				c.Ok("C03/handled-error-needs-cache", funcName(fn)+"/"+label, cs.Ins.Pos(), "error propagated")
			}
		}
	}

	c.Rule("C03/hook-failure-not-swallowed", "CallEVMWithData: ApplyMessage errors reject; a PostTxProcessing error marks the response failed; every success return is dominated by !res.Failed()", 4)
	evmHookRule(c, "C03/hook-failure-not-swallowed")
	c.Rule("C03/tss-relay-authenticated-by-signer", "packets and acknowledgements of a TSS-secured counterparty are accepted on the identity of the transaction signer alone (msg.Signer handed to the TSS client exactly when the client type is TSS): otherwise anybody can mint without escrow or obtain a refund for a delivered packet", 2)
	tssProofRule(c, "C03/tss-relay-authenticated-by-signer")

	c.Rule("C03/only-packet-contract-events", "frozen table (shared with C04/hook): a packet commitment is created only for a PacketSent log emitted by the packet contract address itself — a look-alike event from another contract would create a deliverable packet with nothing escrowed", 5)
	c.FrozenFiltered("C04", "C03/only-packet-contract-events", func(fn string) bool { return strings.HasSuffix(fn, "Hooks.PostTxProcessing") })

	c.Rule("C03/ack-outcome", "msg server Acknowledgement: after a verified ack, exactly one of setAckStatus(…,1) [code==0] / setAckStatus(…,2) [code!=0], then sendPacketFeeToRelayer and OnAcknowledgePacket, each once, each with its error propagated, all dominated by AcknowledgePacket==nil and both decodes", 20)
	ackSpec(c, "C03/ack-outcome")

	c.Rule("C03/error-ack-is-error", "the acknowledgement written on the callback-failure path (and for an unknown destination) carries a non-zero constant code; the one written on success carries the contract's result code", 3)
	fa := c.P.FA(ms)
	for i, cs := range c.Calls(ms, "packet/types.NewAcknowledgement") {
		args := c.P.ArgExprs(cs)
		conds := fa.PathCondStrings(cs.Ins.Block())
		lab := fmt.Sprintf("NewAcknowledgement#%d", i)
		switch {
		case conds["("+callExpr+"#1 == nil)"]:
			c.Req(strings.HasSuffix(args[0].String(), ">.Code") && strings.Contains(args[0].String(), "UnpackIntoInterface") && strings.Contains(args[0].String(), callExpr+"#0.Ret"), "C03/error-ack-is-error", lab+" success code", cs.Ins.Pos(), "result.Code of this call", "success acknowledgement code is "+trunc(args[0].String())+", not the code unpacked from this callback's return data")
		default:
			c.Req(args[0].Op == "const" && args[0].Name != "0", "C03/error-ack-is-error", lab+" error code", cs.Ins.Pos(), "constant "+args[0].Name, "error acknowledgement code is "+trunc(args[0].String())+" (must be a non-zero constant)")
		}
	}
}

// errPropQuiet is ErrPropagated without recording obligations.
func errPropQuiet(c *Check, cs *CallSite) bool {
	tmp := newCheck(c.P, c.Prop, c.Tier)
	tmp.Rule("x", "", 0)
	return tmp.ErrPropagated(cs, "x", "x")
}

// ackSpec: structure of the msg-server Acknowledgement handler (shared by C03 and C05).
func ackSpec(c *Check, rule string) {
	m := msM
	fn := xibcK + "Keeper.Acknowledgement"
	pre := []string{"({KACK} == nil)", "(packet/types.(*Packet).ABIDecode({PKT}, $2.Packet) == nil)", "(packet/types.(*Acknowledgement).ABIDecode({ACK}, $2.Acknowledgement) == nil)"}
	cp := func(method string, rest string) string {
		return "packet/keeper.(Keeper).CallPacket($0.PacketKeeper, {CTX}, \"" + method + "\", [" + rest + "])"
	}
	_ = cp
	c.Spec(rule, m, FnSpec{Fn: fn,
		Guards: []G{
			{"verified", "reject ({KACK} != nil)"},
			{"decode-packet", "reject (packet/types.(*Packet).ABIDecode({PKT}, $2.Packet) != nil)"},
			{"decode-ack", "reject (packet/types.(*Acknowledgement).ABIDecode({ACK}, $2.Acknowledgement) != nil)"},
		},
		Effects: []Eff{
			{Label: "setAckStatus(success)", Callee: "keeper.(Keeper).CallPacket", Filter: "\"setAckStatus\", [{DST}, {PKT}.Sequence, 1]", N: 1, Args: map[int]string{1: "{CTX}"}, Under: append([]string{"(0 == {ACK}.Code)"}, pre...), Err: true},
			{Label: "setAckStatus(failure)", Callee: "keeper.(Keeper).CallPacket", Filter: "\"setAckStatus\", [{DST}, {PKT}.Sequence, 2]", N: 1, Args: map[int]string{1: "{CTX}"}, Under: append([]string{"(0 != {ACK}.Code)"}, pre...), Err: true},
			{Label: "setAckStatus(total)", Callee: "keeper.(Keeper).CallPacket", Filter: "\"setAckStatus\"", N: 2},
			{Label: "sendPacketFeeToRelayer", Callee: "keeper.(Keeper).CallPacket", Filter: "\"sendPacketFeeToRelayer\", [{DST}, {PKT}.Sequence,", N: 1, Args: map[int]string{1: "{CTX}"}, Under: pre, Err: true},
			{Label: "OnAcknowledgePacket", Callee: "keeper.(Keeper).CallPacket", Filter: "\"OnAcknowledgePacket\", [{PKT}, {ACK}]", N: 1, Args: map[int]string{1: "{CTX}"}, Under: pre, Err: true},
			{Label: "all-CallPacket", Callee: "keeper.(Keeper).CallPacket", N: 4},
		},
		Success: pre[:1],
	})
	// every accepted acknowledgement of a packet this chain sent passes through each of the three contract calls exactly
	// once (status, fee, refund/confirm callback); one for a foreign packet through none
	f := c.F(fn)
	fa := c.P.FA(f)
	for _, method := range []string{"setAckStatus", "sendPacketFeeToRelayer", "OnAcknowledgePacket"} {
		own := ""
		isSite := func(cs *CallSite) bool {
			return strings.HasSuffix(cs.Name, "keeper.(Keeper).CallPacket") && strings.Contains(fa.X.E(cs.Ins.Value()).String(), "\""+method+"\"")
		}
		for _, cs := range c.P.CallsIn(f) {
			if isSite(cs) {
				for k := range fa.PathCondStrings(cs.Ins.Block()) {
					if strings.Contains(k, "GetChainName") {
						own = k
					}
				}
			}
		}
		if !c.Req(own != "", rule, "every-own-ack-passes-"+method+"/own-chain test", f.Pos(), own, "no call of "+method+" under a test of the packet's source chain against this chain's name") {
			continue
		}
		good, bad := 0, token.NoPos
		for _, p := range c.PathCounts(f, isSite) {
			want := 0
			if p.Conds[own] {
				want = 1
			}
			if p.Count == want {
				good++
			} else {
				bad = p.Ret.Pos()
			}
		}
		c.Req(bad == token.NoPos && good > 0, rule, "every-own-ack-passes-"+method, f.Pos(), fmt.Sprintf("%d accepting path(s), each with exactly one call when the packet is this chain's", good),
			"an accepting path of the acknowledgement handler for a packet of this chain does not make exactly one "+method+" call (the step is skipped or repeated on that path)")
	}
}

// evmHookRule: structure of CallEVMWithData around the post-transaction hook (shared by C03 and C04).
func evmHookRule(c *Check, rule string) {
	em := Macros{"MSG": "core/types.NewMessage($2, $3, iface:packet/types.AccountKeeper.GetSequence($0.accountKeeper, $1, go-ethereum/common.(Address).Bytes($2))#0, math/big.NewInt(0), 25000000, math/big.NewInt(0), math/big.NewInt(0), math/big.NewInt(0), $4, nil, true)"}
	evm := c.F(pkKeeper + "Keeper.CallEVMWithData")
	efa := c.P.FA(evm)
	var apply, post string
	for _, cs := range c.P.CallsIn(evm) {
		if strings.HasSuffix(cs.Name, "EVMKeeper.ApplyMessage") {
			apply = fa0(c, cs)
			args := c.P.ArgExprs(cs)
			c.Req(args[1].String() == "$1", rule, "ApplyMessage.ctx", cs.Ins.Pos(), "", "ApplyMessage context is "+args[1].String())
		}
		if strings.HasSuffix(cs.Name, "EVMKeeper.PostTxProcessing") {
			post = fa0(c, cs)
		}
	}
	_ = em
	if apply == "" || post == "" {
		c.Bad(rule, "ApplyMessage/PostTxProcessing present", evm.Pos(), "CallEVMWithData no longer calls ApplyMessage and PostTxProcessing")
	} else {
		failed := "types.(*MsgEthereumTxResponse).Failed(" + apply + "#0)"
		full := ""
		for s := range efa.GuardSet() {
			if strings.Contains(s, failed) && strings.HasPrefix(s, "reject ") && !strings.HasPrefix(s, "reject !") {
				full = strings.TrimPrefix(s, "reject ")
			}
		}
		c.Req(full != "", rule, "reject res.Failed()", evm.Pos(), "", "no rejecting branch on res.Failed()")
		c.HasGuard(evm, rule, "apply-error", Macros{}, "reject ("+apply+"#1 != nil)")
		if full != "" {
			c.SuccessUnder(evm, rule, Macros{}, "!"+full, "("+apply+"#1 == nil)")
		}
		// the hook-error branch must mark the response failed
		marked := false
		for _, b := range evm.Blocks {
			for _, ins := range b.Instrs {
				if st, ok := ins.(*ssa.Store); ok {
					if efa.X.E(st.Addr).String() == apply+"#0.VmError" && efa.PathCondStrings(b)["("+post+" != nil)"] {
						if k, isC := st.Val.(*ssa.Const); !isC || k.Value.ExactString() != `""` {
							marked = true
						}
					}
				}
			}
		}
		// …unless the hook-error edge rejects outright (returns the error without consulting res.Failed())
		direct := false
		for _, i := range efa.ifs {
			ce := efa.X.E(i.Cond).String()
			if ce == "("+post+" != nil)" && efa.rejOnly[i.Block().Succs[0].Index] {
				direct = true
			} else if ce == "("+post+" == nil)" && efa.rejOnly[i.Block().Succs[1].Index] {
				direct = true
			}
		}
		c.Req(marked || direct, rule, "hook error marks response failed", evm.Pos(), "res.VmError set under PostTxProcessing != nil, or the error edge rejects directly", "no store to res.VmError on the PostTxProcessing error edge (and the edge does not reject by itself): a failing hook would be swallowed")
		// …and the failure test must be evaluated AFTER the hook ran: from the hook-error edge no success return may be
		// reachable without passing through a branch on res.Failed()
		for _, i := range efa.ifs {
			ce := efa.X.E(i.Cond).String()
			var succ *ssa.BasicBlock
			if ce == "("+post+" != nil)" {
				succ = i.Block().Succs[0]
			} else if ce == "("+post+" == nil)" {
				succ = i.Block().Succs[1]
			}
			if succ == nil {
				continue
			}
			seen := map[*ssa.BasicBlock]bool{succ: true}
			st := []*ssa.BasicBlock{succ}
			escaped := false
			for len(st) > 0 {
				b := st[len(st)-1]
				st = st[:len(st)-1]
				if t, ok := b.Instrs[len(b.Instrs)-1].(*ssa.If); ok && strings.Contains(efa.X.E(t.Cond).String(), failed) {
					continue // a res.Failed() test guards everything behind it
				}
				if _, ok := b.Instrs[len(b.Instrs)-1].(*ssa.Return); ok && efa.exit[b.Index] != "reject" {
					escaped = true
				}
				for _, s2 := range b.Succs {
					if !seen[s2] {
						seen[s2] = true
						st = append(st, s2)
					}
				}
			}
			c.Req(!escaped, rule, "hook error edge cannot reach success without a res.Failed() test", i.Cond.Pos(), "", "a success return is reachable from the PostTxProcessing error edge without re-testing res.Failed(): the hook failure is logged but the call reports success (EVM effects stay committed)")
		}
	}
}
