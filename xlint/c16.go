package main

import (
	"fmt"
	"go/types"
	"sort"
	"strings"

	"golang.org/x/tools/go/ssa"
)

func init() { register("C16", c16) }

func c16(c *Check) {
	c.Declined = []string{
		"what ibc-go core does with the returned acknowledgement (read once: a nil ack is treated as asynchronous and nothing is written; trusted)",
		"bank balances / ERC-20 balances after the conversion (runtime values; C11 covers the conversion's structure)",
	}
	c.Trusted = []string{"ibc-go core channel keeper RecvPacket/WriteAcknowledgement", "cosmos-sdk CacheContext semantics", "go/ssa"}
	m := Macros{
		"CC":    "cosmos-sdk/types.(Context).CacheContext($1)",
		"DATA":  "cell<cosmos-sdk/codec.(*ProtoCodec).UnmarshalJSON(g:transfer/types.ModuleCdc, $2.Data, _)>",
		"AMT":   "cosmos-sdk/types.NewIntFromString({DATA}.Amount)",
		"RCV":   "cosmos-sdk/types.AccAddressFromBech32({DATA}.Receiver)#0",
		"DENOM": "aggregate/types.IBCDenom($2.DestinationPort, $2.DestinationChannel, {DATA}.Denom)",
		"MSG":   "aggregate/types.NewMsgConvertCoin(cosmos-sdk/types.NewCoin({DENOM}#0, {AMT}#0), go-ethereum/common.BytesToAddress({RCV}), {RCV})",
		"CONV":  "aggregate/keeper.(Keeper).ConvertCoin($0, cosmos-sdk/types.WrapSDKContext({CC}#0), {MSG})",
	}
	hook := c.F("x/aggregate/keeper.Keeper.OnRecvPacket")
	fa := c.P.FA(hook)

	c.Rule("C16/no-swallowed-panic", "no function of the aggregate module and its middleware defers a recover() that lets it return normally after a panic: the middleware would hand IBC core a nil acknowledgement (an accepted receive that is never acknowledged) or the hook a nil error", 1)
	noSwallowedPanic(c, "C16/no-swallowed-panic", fnsInPackages(c, "/x/aggregate"))
	c.Rule("C16/ack-passthrough", "every return of the aggregate OnRecvPacket hook yields the acknowledgement it was handed (parameter ack), never nil or a new value", 3)
	n := 0
	for _, b := range hook.Blocks {
		if r, ok := b.Instrs[len(b.Instrs)-1].(*ssa.Return); ok {
			got := fa.X.E(RetVal(r, 0)).String()
			c.Req(got == "$3", "C16/ack-passthrough", fmt.Sprintf("%s/return#%d", funcName(hook), n), r.Pos(), "returns ack parameter", "hook returns "+got+" instead of the transfer application's acknowledgement (parameter $3 'ack'); ibc-go treats nil as 'no acknowledgement'")
			n++
		}
	}

	c.Rule("C16/conversion-all-or-nothing", "frozen table (shared with C11): the conversion the hook runs on its cache context — ConvertCoin's gate (incl. the destroyed-contract test through IsContract) and the two coin→token conversion functions — propagates every error of its escrow / mint / transfer steps and reaches success only after the balance check: a conversion that fails half way reports the failure, so the hook drops the cache and the vouchers stay with the receiver", 20)
	c.FrozenFiltered("C11", "C16/conversion-all-or-nothing", func(fn string) bool {
		return strings.HasSuffix(fn, "Keeper.ConvertCoin") || strings.HasSuffix(fn, "Keeper.convertCoinNativeCoin") || strings.HasSuffix(fn, "Keeper.convertCoinNativeERC20")
	})
	c.Rule("C16/conversion-path-does-not-abort", "the functions of the aggregate module that the ICS-20 hook runs (OnRecvPacket → ConvertCoin → convertCoinNative*) contain no source of a Go panic other than the audited ones: a panic there leaves the middleware and aborts a receive that the transfer application had accepted", 2)
	{
		hookRoot := c.F("x/aggregate/keeper.Keeper.OnRecvPacket")
		reach := c.Reachable([]*ssa.Function{hookRoot}, "cha", func(f *ssa.Function) bool { return !strings.Contains(fnPkgPath(f), "/x/aggregate") })
		audited := map[string]string{
			"cosmos-sdk/types.NewCoin":          "amount and denomination come from a coin the transfer module has just minted / validated (non-negative, valid denom)",
			"cosmos-sdk/types.NewCoins":         "single validated coin",
			"cosmos-sdk/types.NewIntFromBigInt": "value read back from an sdk.Int",
			"cosmos-sdk/types.(Coin).Add":       "both coins carry the denomination of the message coin",
			"cosmos-sdk/types.(Coin).Sub":       "both coins carry the denomination of the message coin",
			"iface.MustUnmarshal":               "decoding a pair that SetTokenPair marshalled into the module's own store",
		}
		var fs []*ssa.Function
		for f := range reach {
			if inScope(f) && strings.Contains(fnPkgPath(f), "/x/aggregate/keeper") && !c.P.Absorbed(f) {
				fs = append(fs, f)
			}
		}
		sort.Slice(fs, func(i, j int) bool { return funcName(fs[i]) < funcName(fs[j]) })
		n := 0
		for _, f := range fs {
			for _, s := range panicSites(c, f) {
				if s.Kind != "ext-may-panic" && s.Kind != "panic" && s.Kind != "must-call" && s.Kind != "div" {
					continue // index / assertion idioms are C15's business
				}
				n++
				why, ok := audited[s.What]
				c.Req(ok, "C16/conversion-path-does-not-abort", fmt.Sprintf("%s|%s|%s", funcName(f), s.Kind, trunc(s.What)), s.Pos, "audited: "+why, "unaudited panic source ("+s.Kind+": "+trunc(s.What)+") on the conversion path of the ICS-20 hook")
			}
		}
		c.Req(len(fs) >= 3, "C16/conversion-path-does-not-abort", "functions on the conversion path", hookRoot.Pos(), fmt.Sprint(len(fs), " function(s), ", n, " site(s)"), "conversion path not found")
	}
	c.Rule("C16/no-failure-reported-as-success", "on the failure edge of one error no function returns another error value that is provably nil at that point (a wrapped stale `err` instead of the error just tested): a failed step is never reported as success", 1)
	noFailureAsSuccess(c, "C16/no-failure-reported-as-success", fnsInPackages(c, "/x/aggregate"))
	c.Rule("C16/middleware-forwarding", "IBCMiddleware.OnRecvPacket calls the wrapped module with unmodified (ctx,packet,relayer), returns its ack when !Success(), otherwise returns the hook's value for that same ack; ibc.Module forwards every callback unchanged", 12)
	mw := c.F("x/aggregate.IBCMiddleware.OnRecvPacket")
	mm := Macros{"INNER": "teleport/ibc.(Module).OnRecvPacket($0.Module, $1, $2, $3)"}
	c.Spec("C16/middleware-forwarding", mm, FnSpec{Fn: "x/aggregate.IBCMiddleware.OnRecvPacket",
		Effects: []Eff{
			{Label: "wrapped-module", Callee: "teleport/ibc.(Module).OnRecvPacket", N: 1, Args: map[int]string{1: "$1", 2: "$2", 3: "$3"}},
			{Label: "hook", Callee: "aggregate/keeper.(Keeper).OnRecvPacket", N: 1, Args: map[int]string{0: "$0.keeper", 1: "$1", 2: "$2", 3: "{INNER}"},
				Under: []string{"iface:core/exported.Acknowledgement.Success({INNER})"}},
		},
		Returns: []Ret{{Label: "ack", Index: 0, Want: []string{"{INNER}", "aggregate/keeper.(Keeper).OnRecvPacket($0.keeper, $1, $2, {INNER})"}}},
	})
	_ = mw
	forwarders(c, "C16/middleware-forwarding", "ibc.Module")

	c.Rule("C16/cache-discipline", "automatic conversion runs on the cache context; write() is called once, only on ConvertCoin's err==nil edge; nothing but reads and event emission touches the outer ctx", 5)
	hookCacheRule(c, "C16/cache-discipline", m)

	c.Rule("C16/converted-value", "the conversion message carries exactly the packet's amount, the IBC voucher denom of (dest port, dest channel, data.Denom) and data.Receiver, all from the one decoded packet data", 2)
	c.Spec("C16/converted-value", m, FnSpec{Fn: "x/aggregate/keeper.Keeper.OnRecvPacket",
		Effects: []Eff{
			{Label: "msg", Callee: "aggregate/keeper.(Keeper).ConvertCoin", N: 1, Args: map[int]string{2: "{MSG}"},
				Under: []string{"{AMT}#1", "({DENOM}#1 == nil)"}},
		},
	})

	c.Rule("C16/wiring", "app wiring: the transfer route is the aggregate middleware wrapping the ICS-20 module; the transfer keeper's ICS-4 wrapper is the aggregate keeper, whose own wrapper is the IBC channel keeper", 4)
	app := c.F("app.NewTeleport")
	mwCalls := c.Calls(app, "x/aggregate.NewIBCMiddleware")
	c.Req(len(mwCalls) == 1, "C16/wiring", "app.NewTeleport/NewIBCMiddleware", app.Pos(), "1 site", fmt.Sprintf("%d NewIBCMiddleware sites", len(mwCalls)))
	var mwExpr string
	for _, cs := range mwCalls {
		args := c.P.ArgExprs(cs)
		c.Req(args[1].IsCall("transfer.NewIBCModule"), "C16/wiring", "middleware wraps transfer IBC module", cs.Ins.Pos(), "", "NewIBCMiddleware wraps "+trunc(args[1].String())+" instead of ibctransfer.NewIBCModule")
		c.Req(args[0].IsCall("aggregate/keeper.NewKeeper"), "C16/wiring", "middleware uses aggregate keeper", cs.Ins.Pos(), "", "NewIBCMiddleware keeper argument is "+trunc(args[0].String()))
		mwExpr = fa0(c, cs)
	}
	okRoute := false
	for _, cs := range c.Calls(app, "port/types.(*Router).AddRoute") {
		args := c.P.ArgExprs(cs)
		if len(args) >= 3 && args[1].String() == `"transfer"` {
			okRoute = args[2].String() == mwExpr
			c.Req(okRoute, "C16/wiring", "transfer route is the middleware", cs.Ins.Pos(), "", "ibc router maps \"transfer\" to "+trunc(args[2].String()))
		}
	}
	if !okRoute {
		c.Req(false, "C16/wiring", "transfer route is the middleware", app.Pos(), "", "no ibc route for \"transfer\" bound to the aggregate middleware")
	}
	for _, cs := range c.Calls(app, "transfer/keeper.NewKeeper") {
		args := c.P.ArgExprs(cs)
		c.Req(len(args) > 3 && args[3].IsCall("aggregate/keeper.NewKeeper"), "C16/wiring", "transfer keeper ICS4 wrapper is aggregate keeper", cs.Ins.Pos(), "", "transfer keeper's ICS4 wrapper is "+trunc(args[3].String()))
	}
	for _, cs := range c.Calls(app, "aggregate/keeper.(*Keeper).SetICS4Wrapper") {
		args := c.P.ArgExprs(cs)
		c.Req(strings.HasSuffix(args[1].String(), ".ChannelKeeper"), "C16/wiring", "aggregate ICS4 wrapper is channel keeper", cs.Ins.Pos(), "", "aggregate keeper's ICS4 wrapper is "+trunc(args[1].String()))
	}
}

func trunc(s string) string {
	if len(s) > 160 {
		return s[:160] + "…"
	}
	return s
}

func fa0(c *Check, cs *CallSite) string {
	if v, ok := cs.Ins.(*ssa.Call); ok {
		return c.P.Ex(cs.Fn).E(v).String()
	}
	return ""
}

// forwarders: every method of the named wrapper type is a pure forwarder: one interface call to the same
// method name with the parameters in order, and its results returned unchanged.
func forwarders(c *Check, rule, typeSpec string) {
	i := strings.LastIndex(typeSpec, ".")
	pkg := c.P.Pkg(typeSpec[:i])
	tn := pkg.Type(typeSpec[i+1:])
	if tn == nil {
		checkerFail("anchor unresolved: type %s", typeSpec)
	}
	ms := c.P.SSA.MethodSets.MethodSet(tn.Type())
	for k := 0; k < ms.Len(); k++ {
		fn := c.P.SSA.MethodValue(ms.At(k))
		if fn == nil || fn.Synthetic != "" || len(fn.Blocks) == 0 {
			continue
		}
		c.Touch(fn)
		var inner []*CallSite
		for _, cs := range c.P.CallsIn(fn) {
			if cs.Ins.Common().IsInvoke() && cs.Ins.Common().Method.Name() == fn.Name() {
				inner = append(inner, cs)
			}
		}
		construct := funcName(fn) + "/forwards"
		if len(inner) != 1 {
			c.Bad(rule, construct, fn.Pos(), fmt.Sprintf("%d forwarding calls to the wrapped %s (want 1)", len(inner), fn.Name()))
			continue
		}
		args := c.P.ArgExprs(inner[0])
		ok := len(args) == len(fn.Params)
		for j := 1; ok && j < len(args); j++ {
			if args[j].String() != fmt.Sprintf("$%d", j) {
				ok = false
			}
		}
		// results returned unchanged
		call := inner[0].Ins.(*ssa.Call)
		x := c.P.Ex(fn)
		ce := x.E(call).String()
		for _, b := range fn.Blocks {
			if r, isRet := b.Instrs[len(b.Instrs)-1].(*ssa.Return); isRet {
				for ri := range r.Results {
					got := x.E(RetVal(r, ri)).String()
					want := ce
					if call.Type().(interface{}) != nil {
						if tup, isTup := call.Type().(*types.Tuple); isTup && tup.Len() > 1 {
							want = fmt.Sprintf("%s#%d", ce, ri)
						}
					}
					if got != want {
						// normal form of `return X`: `if X != nil { return X }; return nil`
						split := got == "nil" && ri == len(r.Results)-1 && isErrorType(r.Results[ri].Type()) &&
							c.P.FA(fn).PathCondStrings(b)["("+want+" == nil)"]
						if !split {
							ok = false
						}
					}
				}
			}
		}
		c.Req(ok, rule, construct, fn.Pos(), "pure forwarder", "method does not forward its parameters unchanged to the wrapped module and return its results unchanged")
	}
}

// hookCacheRule: the ICS-20 hook converts on the cache context and flushes it only on success (shared by C16 and C11).
func hookCacheRule(c *Check, rule string, m Macros) {
	hook := c.F("x/aggregate/keeper.Keeper.OnRecvPacket")
	c.Spec(rule, m, FnSpec{Fn: "x/aggregate/keeper.Keeper.OnRecvPacket",
		Effects: []Eff{
			{Label: "ConvertCoin", Callee: "aggregate/keeper.(Keeper).ConvertCoin", N: 1, Args: map[int]string{1: "cosmos-sdk/types.WrapSDKContext({CC}#0)"}},
			{Label: "write", Callee: "dyn:{CC}#1", N: 1, Under: []string{"({CONV}#1 == nil)"}},
		},
	})
	// calls that receive the outer ctx directly
	allowedOuter := []string{"(Context).CacheContext", "(Keeper).IsDenomRegistered", "(Context).EventManager"}
	for _, cs := range c.P.CallsIn(hook) {
		args := c.P.ArgExprs(cs)
		uses := false
		for _, a := range args {
			if a.String() == "$1" {
				uses = true
			}
		}
		if !uses {
			continue
		}
		ok := false
		for _, al := range allowedOuter {
			if strings.HasSuffix(cs.Name, al) {
				ok = true
			}
		}
		c.Req(ok, rule, funcName(hook)+"/outer-ctx-use:"+cs.Name, cs.Ins.Pos(), "read-only / event use of outer ctx", "call "+cs.Name+" operates on the outer ctx (not the cache context); a failure later in the hook would not undo it")
	}
}
