package main

import (
	"fmt"
	"go/token"
	"go/types"
	"os"
	"sort"
	"strings"

	"golang.org/x/tools/go/ssa"
)

func init() { register("C15", c15) }

// c15Roots: code that runs outside per-transaction panic recovery.
func c15Roots(c *Check) []*ssa.Function {
	var roots []*ssa.Function
	add := func(f *ssa.Function) {
		if f != nil && len(f.Blocks) > 0 {
			roots = append(roots, c.Touch(f))
		}
	}
	// governance proposal handlers (closures returned by the constructors)
	for _, spec := range []string{"x/xibc/core/client.NewClientProposalHandler", "x/aggregate.NewAggregateProposalHandler"} {
		f := c.F(spec)
		for _, af := range f.AnonFuncs {
			add(af)
		}
	}
	// module Begin/EndBlock/InitGenesis and the app-level ABCI entry points
	for fn := range c.P.AllFuncs {
		if !inScope(fn) || len(fn.Blocks) == 0 || fn.Signature.Recv() == nil {
			continue
		}
		switch fn.Name() {
		case "BeginBlock", "EndBlock", "InitGenesis":
			if strings.Contains(funcName(fn), "AppModule)") {
				add(fn)
			}
		case "InitChainer", "BeginBlocker", "EndBlocker":
			if strings.Contains(funcName(fn), "app.(*Teleport)") {
				add(fn)
			}
		}
	}
	sort.Slice(roots, func(i, j int) bool { return funcName(roots[i]) < funcName(roots[j]) })
	return roots
}

type panicSite struct {
	Fn   *ssa.Function
	Kind string // panic | must-call | ext-may-panic | div | const-index | type-assert
	What string
	Pos  token.Pos
	Ins  ssa.Instruction
}

var extMayPanic = []string{
	"core/types.BytesToBloom", "cosmos-sdk/types.NewCoin", "cosmos-sdk/types.NewCoins", "cosmos-sdk/types.NewDecCoin",
	"cosmos-sdk/types.NewIntFromBigInt", "cosmos-sdk/types.NewIntFromUint64", "cosmos-sdk/types.(Coin).Add", "cosmos-sdk/types.(Coin).Sub",
	"cosmos-sdk/types.(Coins).Sub", "cosmos-sdk/types.(Int).Int64", "cosmos-sdk/types.(Int).Uint64", "cosmos-sdk/types.(Int).Quo", "cosmos-sdk/types.(Dec).Quo", "math/big.(*Int).Div", "math/big.(*Int).Mod", "math/big.(*Int).Quo", "math/big.(*Int).Rem",
}

// indexBounded: the computed index is provably inside the slice by one of the recognised idioms: a dominating
// idx < len(base) test on that same base (range / counted loop over the same slice), or idx = … % len(base).
func indexBounded(c *Check, fn *ssa.Function, b *ssa.BasicBlock, base, idx string) bool {
	if strings.HasSuffix(idx, " % len("+base+"))") {
		return true
	}
	conds := c.P.FA(fn).PathCondStrings(b)
	if conds["("+idx+" < len("+base+"))"] {
		return true
	}
	// bounded by another slice whose length was tested equal to this one's
	for k := range conds {
		pre := "(" + idx + " < len("
		if strings.HasPrefix(k, pre) && strings.HasSuffix(k, "))") {
			other := k[len(pre) : len(k)-2]
			if conds["(len("+other+") == len("+base+"))"] || conds["(len("+base+") == len("+other+"))"] {
				return true
			}
		}
	}
	return false
}

var parseFns = []string{"math/big.(*Int).SetString", "strconv.ParseUint", "strconv.ParseInt", "strconv.Atoi", "cosmos-sdk/types.NewIntFromString",
	"cosmos-sdk/types.AccAddressFromBech32", "cosmos-sdk/types.ValAddressFromBech32", "cosmos-sdk/types.NewDecFromStr", "encoding/hex.DecodeString", "client/types.ParseHeight"}

func isParseFn(n string) bool {
	for _, p := range parseFns {
		if strings.HasSuffix(n, p) {
			return true
		}
	}
	return false
}

func isIntegerType(t types.Type) bool {
	b, ok := t.Underlying().(*types.Basic)
	return ok && b.Info()&types.IsInteger != 0
}

func panicSites(c *Check, fn *ssa.Function) []panicSite {
	return panicSitesF(c, fn, func(ins ssa.Instruction) bool { return !c.P.IsClone(ins) })
}

// panicSitesF: the panic sources among the instructions of fn's (normalised) body selected by keep.
func panicSitesF(c *Check, fn *ssa.Function, keep func(ssa.Instruction) bool) []panicSite {
	var out []panicSite
	x := c.P.Ex(fn)
	for _, b := range fn.Blocks {
		for _, ins := range b.Instrs {
			if !keep(ins) {
				continue
			}
			switch v := ins.(type) {
			case *ssa.Panic:
				arg := x.E(v.X).String()
				what := "panic(" + trunc(arg) + ")"
				if strings.HasPrefix(arg, "\"") || strings.HasPrefix(arg, "(\"") || strings.HasPrefix(arg, "fmt.Sprintf(") || strings.HasPrefix(arg, "fmt.Errorf(") || strings.HasPrefix(arg, "errors.New(") {
					// a panic with a message is named by the conditions it sits under, not by its (freely editable) text
					var cs []string
					for k := range c.P.FA(fn).PathCondStrings(v.Block()) {
						cs = append(cs, k)
					}
					sort.Strings(cs)
					what = "panic(<message>) when " + strings.Join(cs, " ; ")
				}
				out = append(out, panicSite{fn, "panic", what, v.Pos(), v})
			case *ssa.BinOp:
				if (v.Op == token.QUO || v.Op == token.REM) && isIntegerType(v.X.Type()) {
					if _, isConst := v.Y.(*ssa.Const); !isConst {
						out = append(out, panicSite{fn, "div", v.Op.String() + " " + x.E(v.Y).String(), v.Pos(), v})
					}
				}
			case *ssa.TypeAssert:
				if !v.CommaOk {
					out = append(out, panicSite{fn, "type-assert", x.E(v.X).String() + ".(" + typeStr(v.AssertedType) + ")", v.Pos(), v})
				}
			case *ssa.IndexAddr:
				if k, ok := v.Index.(*ssa.Const); ok {
					if _, isSlice := v.X.Type().Underlying().(*types.Slice); isSlice {
						out = append(out, panicSite{fn, "const-index", fmt.Sprintf("%s[%d]", x.E(v.X).String(), k.Int64()), v.Pos(), v})
					}
				} else if _, isSlice := v.X.Type().Underlying().(*types.Slice); isSlice {
					base, idx := x.E(v.X).String(), x.E(v.Index).String()
					if !indexBounded(c, fn, v.Block(), base, idx) {
						out = append(out, panicSite{fn, "var-index", fmt.Sprintf("%s[%s]", base, idx), v.Pos(), v})
					}
				}
			case *ssa.Index:
				if k, ok := v.Index.(*ssa.Const); ok {
					if bt, isStr := v.X.Type().Underlying().(*types.Basic); isStr && bt.Info()&types.IsString != 0 {
						out = append(out, panicSite{fn, "const-index", fmt.Sprintf("%s[%d]", x.E(v.X).String(), k.Int64()), v.Pos(), v})
					}
				}
			case *ssa.Slice:
				_, isArrPtr := v.X.Type().Underlying().(*types.Pointer)
				if !isArrPtr && (v.Low != nil || v.High != nil) {
					lo, hi := "", ""
					if v.Low != nil {
						lo = x.E(v.Low).String()
					}
					if v.High != nil {
						hi = x.E(v.High).String()
					}
					out = append(out, panicSite{fn, "slice-bounds", fmt.Sprintf("%s[%s:%s]", x.E(v.X).String(), lo, hi), v.Pos(), v})
				}
			case ssa.CallInstruction:
				cc := v.Common()
				if f := c.P.resolveCallee(cc); f != nil {
					n := funcName(f)
					// a parse whose ok / error result is discarded: the value may be nil / zero and is used unchecked
					if call, isCall := v.(*ssa.Call); isCall && isParseFn(n) && call.Call.Signature().Results().Len() == 2 {
						used := false
						if refs := call.Referrers(); refs != nil {
							for _, r := range *refs {
								if ex, ok := r.(*ssa.Extract); ok && ex.Index == 1 && ex.Referrers() != nil && len(*ex.Referrers()) > 0 {
									used = true
								}
							}
						}
						if !used {
							out = append(out, panicSite{fn, "ignored-parse", x.E(call).String(), v.Pos(), v})
						}
					}
					if strings.HasPrefix(f.Name(), "Must") {
						out = append(out, panicSite{fn, "must-call", n, v.Pos(), v})
					} else {
						for _, e := range extMayPanic {
							if strings.HasSuffix(n, e) {
								out = append(out, panicSite{fn, "ext-may-panic", n, v.Pos(), v})
							}
						}
					}
				} else if cc.IsInvoke() && strings.HasPrefix(cc.Method.Name(), "Must") {
					out = append(out, panicSite{fn, "must-call", "iface." + cc.Method.Name(), v.Pos(), v})
				}
			}
		}
	}
	return out
}

type need struct{ fn, guard string }

type audit struct {
	fn, kind, what string // what: substring of the canonical description
	reason         string
	needs          []need
	check          func(c *Check) (bool, string)
	hits           int
}

func hasGuardQuiet(c *Check, fnSpec, want string) bool {
	fn := c.F(fnSpec)
	for s := range c.P.FA(fn).GuardSet() {
		if s == want {
			return true
		}
		// a guard inside a loop over the validated list is as good as an unconditional one; a guard placed under any
		// other condition is not (it does not reject when that condition is false)
		if strings.HasSuffix(s, "] ⇒ "+want) {
			ctx := strings.TrimSuffix(s, "] ⇒ "+want)
			loopOnly := true
			for _, part := range strings.Split(strings.TrimPrefix(ctx, "["), " && ") {
				if !strings.Contains(part, "μ{") && !strings.Contains(part, "Iterator.Valid(") {
					loopOnly = false
				}
			}
			if loopOnly {
				return true
			}
		}
	}
	return false
}

func retIs(c *Check, fnSpec, want string) bool {
	for _, r := range c.P.RetExprs(c.F(fnSpec), 0) {
		if r.String() == want {
			return true
		}
	}
	return false
}

var codecMust = map[string]bool{"MustMarshal": true, "MustUnmarshal": true, "MustMarshalJSON": true, "MustUnmarshalJSON": true,
	"MustMarshalClientState": true, "MustUnmarshalClientState": true, "MustMarshalConsensusState": true, "MustUnmarshalConsensusState": true,
	"MustMarshalInterface": true, "MustUnmarshalInterface": true, "MustMarshalLengthPrefixed": true, "MustUnmarshalLengthPrefixed": true}

func c15(c *Check) {
	c.Declined = []string{
		"panics inside dependencies on inputs that cannot be characterised statically (cosmos-sdk, ethermint, go-ethereum internals)",
		"nil-pointer dereferences and out-of-range accesses with computed indices beyond the recognised loop/len idioms",
		"out-of-gas and stack exhaustion",
	}
	c.Trusted = []string{"CHA call graph for reachability from the non-recovered entry points", "cosmos-sdk gov runs ValidateBasic at submission; x/params runs the registered validator on every parameter change", "codec (un)marshalling of registered proto types does not fail"}
	c.Assume = []string{"a proposal content / parameter value / genesis state has passed its stateless validator before the code under the roots runs"}
	const (
		bscCS  = bscT + "ClientState.Validate"
		bscHVB = bscT + "Header.ValidateBasic"
		ethHVB = ethT + "Header.ValidateBasic"
	)
	bscValidated := func(c *Check) (bool, string) {
		ok := retIs(c, bscCS, "bsc/types.(Header).ValidateBasic($0.Header)")
		return ok, "bsc ClientState.Validate must return Header.ValidateBasic()"
	}
	ethValidated := func(c *Check) (bool, string) {
		ok := retIs(c, ethT+"ClientState.Validate", "eth/types.(Header).ValidateBasic($0.Header)")
		return ok, "eth ClientState.Validate must return Header.ValidateBasic()"
	}
	protoAcc := func(c *Check) (bool, string) {
		app := c.F("app.NewTeleport")
		for _, cs := range c.Calls(app, "auth/keeper.NewAccountKeeper") {
			a := c.P.ArgExprs(cs)
			if len(a) > 3 && a[3].String() == "fn:ethermint/types.ProtoAccount" {
				return true, ""
			}
		}
		return false, "the account keeper's prototype must be ethermint's ProtoAccount (*EthAccount)"
	}
	pairsNonEmpty := func(c *Check) (bool, string) {
		ntp := c.F("x/aggregate/types.NewTokenPair")
		for caller := range c.P.AllFuncs {
			if !inScope(caller) || len(caller.Blocks) == 0 {
				continue
			}
			for _, cs := range c.P.CallsInOwn(caller) {
				if c.P.resolveCallee(cs.Ins.Common()) == ntp {
					a := c.P.ArgExprs(cs)
					if a[1].Op != "list" || len(a[1].Args) < 1 {
						return false, "NewTokenPair is called with a possibly empty denomination list in " + funcName(caller)
					}
				}
			}
		}
		return hasGuardQuiet(c, "x/aggregate/types.GenesisState.Validate", "reject has(make(set[string]), $0.TokenPairs[μ{0}].Denoms[0])"), "aggregate GenesisState.Validate must index Denoms[0] of every pair (a genesis with an empty list does not pass validation)"
	}
	audits := []*audit{
		{fn: "adapter/gov.(HookAdapter).InitGenesis", kind: "type-assert", what: ".(*ethermint/types.EthAccount)", reason: "account prototype is wired to *EthAccount", check: protoAcc},
		{fn: "adapter/staking.(HookAdapter).InitGenesis", kind: "type-assert", what: ".(*ethermint/types.EthAccount)", reason: "account prototype is wired to *EthAccount", check: protoAcc},
		{fn: "teleport/app.(*Teleport).SetEVMCode", kind: "type-assert", what: ".(*ethermint/types.EthAccount)", reason: "account prototype is wired to *EthAccount", check: protoAcc},
		{fn: "aggregate/keeper.(Keeper).DeployERC20Contract", kind: "const-index", what: "$2.DenomUnits[0]", reason: "RegisterCoinProposal.ValidateBasic runs bank Metadata.Validate, which requires a first denom unit",
			needs: []need{{"x/aggregate/types.RegisterCoinProposal.ValidateBasic", "reject (bank/types.(Metadata).Validate($0.Metadata) != nil)"}}},
		{fn: "aggregate/keeper.(Keeper).DeployERC20Contract", kind: "slice-bounds", what: "make([]byte)[", reason: "buffer allocated as len(Bin)+len(ctorArgs); both bounds are len(Bin)"},
		{fn: "aggregate/keeper.(Keeper).UpdateTokenPairERC20", kind: "const-index", what: ".Denoms[0]", reason: "every stored pair has at least one denomination", check: pairsNonEmpty},
		{fn: "aggregate/types.(TokenPair).GetID", kind: "const-index", what: "$0.Denoms[0]", reason: "every stored / validated pair has at least one denomination", check: pairsNonEmpty},
		{fn: "bsc/types.(ClientState).Initialize", kind: "div", what: "% $0.Epoch", reason: "ClientState.Validate rejects epoch 0", needs: []need{{bscCS, "reject ($0.Epoch == 0)"}}},
		{fn: "bsc/types.(ClientState).UpgradeState", kind: "div", what: "% $0.Epoch", reason: "ClientState.Validate rejects epoch 0", needs: []need{{bscCS, "reject ($0.Epoch == 0)"}}},
		{fn: "bsc/types.DeleteAllSigner", kind: "const-index", what: "strings.Split(", reason: "keys under the recentSingers prefix are written as recentSingers/<height>",
			check: func(c *Check) (bool, string) {
				for _, w := range c.P.StoreWrites() {
					if strings.HasSuffix(funcName(w.Fn), "bsc/types.SetSigner") {
						return strings.HasPrefix(w.Shape, "recentSingers/"), "SetSigner key shape is " + w.Shape
					}
				}
				return false, "SetSigner not found"
			}},
		{fn: "bsc/types.GetHeightFromIterationKey", kind: "slice-bounds", what: "$0[", reason: "only called with 32-byte consensus keys (length test in the iterator loop)",
			check: func(c *Check) (bool, string) {
				it := c.F(bscT + "IterateConsensusStateAscending")
				for _, cs := range c.Calls(it, "bsc/types.GetHeightFromIterationKey") {
					key := c.P.ArgExprs(cs)[0].String()
					if !c.P.FA(it).PathCondStrings(cs.Ins.Block())["(32 == len("+key+"))"] {
						return false, "call in IterateConsensusStateAscending is not dominated by len(key) == 32"
					}
				}
				callers := c.StaticCallers(c.F(bscT + "GetHeightFromIterationKey"))
				return len(callers) == 1, fmt.Sprintf("callers: %d", len(callers))
			}},
		{fn: "bsc/types.ParseValidators", kind: "slice-bounds", what: "$0[32:(len($0) - 65)]", reason: "Header.ValidateBasic rejects extra data shorter than 97 bytes", needs: []need{{bscHVB, "reject (len($0.Extra) < 97)"}}, check: bscValidated},
		{fn: "bsc/types.ecrecover", kind: "slice-bounds", what: "$0.Extra[(len($0.Extra) - 65):]", reason: "local guard len(Extra) >= 65", needs: []need{{bscT + "ecrecover", "reject (len($0.Extra) < 65)"}}},
		{fn: "bsc/types.ecrecover", kind: "slice-bounds", what: "#0[1:]", reason: "Ecrecover returns a 65-byte key when its error is nil (tested)", needs: []need{{bscT + "ecrecover", "reject (go-ethereum/crypto.Ecrecover(go-ethereum/common.(Hash).Bytes(bsc/types.sealHash($0, $1)), $0.Extra[(len($0.Extra) - 65):])#1 != nil)"}}},
		{fn: "bsc/types.ecrecover", kind: "slice-bounds", what: "[12:]", reason: "Keccak256 returns 32 bytes"},
		{fn: "bsc/types.encodeSigHeader", kind: "slice-bounds", what: "$1.Extra[:(len($1.Extra) - 65)]", reason: "reached only through ecrecover after its length guard / on validated headers", needs: []need{{bscT + "ecrecover", "reject (len($0.Extra) < 65)"}}},
		{fn: "bsc/types.encodeSigHeader", kind: "panic", what: "go-ethereum/rlp.Encode(", reason: "rlp encoding of fixed field types into a hasher does not fail"},
		{fn: "client/types.ParseChainID", kind: "panic", what: "strconv.ParseUint(", reason: "unreachable: the regexp admits digits only"},
		{fn: "client/types.ParseHeight", kind: "const-index", what: "strings.Split($0, \"-\")[", reason: "local guard: element count is 2", needs: []need{{"x/xibc/core/client/types.ParseHeight", "reject (2 != len(strings.Split($0, \"-\")))"}}},
		{fn: "core/client.InitGenesis", kind: "panic", what: ".ClientState.cachedValue.(xibc/exported.ClientState)#1", reason: "genesis validation unpacks every client state as exported.ClientState"},
		{fn: "core/client.InitGenesis", kind: "panic", what: ".ConsensusState.cachedValue.(xibc/exp", reason: "genesis validation unpacks every consensus state as exported.ConsensusState"},
		{fn: "core/packet.InitGenesis", kind: "panic", what: "GetModuleAccount(", reason: "wiring error (maccPerms), not input"},
		{fn: "x/aggregate.InitGenesis", kind: "panic", what: "GetModuleAccount($2, $0, \"aggregate\") == nil", reason: "wiring error (maccPerms), not input"},
		{fn: "eth/types.(Header).ToEthHeader", kind: "ext-may-panic", what: "core/types.BytesToBloom", reason: "Header.ValidateBasic bounds the bloom length", needs: []need{{ethHVB, "reject (256 < len($0.Bloom))"}}, check: ethValidated},
		{fn: "eth/types.rlpHash", kind: "type-assert", what: "sync.(*Pool).Get(", reason: "the pool's New function returns a KeccakState"},
		{fn: "rvesting/keeper.(Keeper).InitGenesis", kind: "panic", what: "AccAddressFromBech32($2.From)#1", reason: "ValidateGenesis parses From", needs: []need{{"x/rvesting/types.ValidateGenesis", "[(0 != len($0.From))] ⇒ reject (cosmos-sdk/types.AccAddressFromBech32($0.From)#1 != nil)"}}},
		{fn: "rvesting/module.BeginBlocker", kind: "ext-may-panic", what: "cosmos-sdk/types.NewCoins", reason: "NewCoins() of no coins cannot be invalid",
			check: func(c *Check) (bool, string) {
				bb := c.F("x/rvesting/module.BeginBlocker")
				for _, cs := range c.Calls(bb, "cosmos-sdk/types.NewCoins") {
					if a := c.P.ArgExprs(cs); len(a) != 1 || a[0].String() != "nil" {
						return false, "NewCoins is called with arguments"
					}
				}
				return true, ""
			}},
		{fn: "rvesting/module.BeginBlocker", kind: "panic", what: "SendVestedCoins(", reason: "the amount sent is min(reward, pool balance) per denomination and denominations are unique, so the transfer cannot exceed the pool",
			needs: []need{{"x/rvesting/types.validatePerBlockReward", "reject has(make(set[string]), $0.(cosmos-sdk/types.Coins)#0[μ{0}].Denom)"}}},
		{fn: "teleport/app.(*Teleport).InitChainer", kind: "panic", what: "encoding/json.Unmarshal($2.AppStateBytes", reason: "malformed genesis file (fails before any validation)"},
		{fn: "teleport/app.(*Teleport).InitChainer", kind: "panic", what: "adapter.(Manager).InitGenesis", reason: "system-contract deployment at chain start: wiring"},
		{fn: "tendermint/types.bigEndianHeightBytes", kind: "slice-bounds", what: "zero([16]byte)[:16][8:]", reason: "constant bounds inside a 16-byte array"},
		{fn: "xibc/module.(AppModule).InitGenesis", kind: "panic", what: "JSONCodec.UnmarshalJSON(", reason: "malformed genesis JSON (rejected by ValidateGenesis as well)"},
		{fn: "bsc/types.ParseValidators", kind: "slice-bounds", what: "[(μ{0} * 20):((μ{0} + 1) * 20)]", reason: "loop bound n = len/20"},
		{fn: "bsc/types.ParseValidators", kind: "var-index", what: "make([][]byte)}[μ{0}]", reason: "result is made with length n and the loop runs i < n"},
		{fn: "aggregate/keeper.(Keeper).CallEVMWithData", kind: "var-index", what: "make([]cosmos-sdk/types.Attribute)}[μ{0}]", reason: "attribute slice is made with len(res.Logs) and indexed by the range index over res.Logs"},
		{fn: "client/types.ParseChainID", kind: "var-index", what: "[(len(strings.Split($0, \"-\")) - 1)]", reason: "strings.Split returns at least one element"},
	}

	roots := c15Roots(c)
	reach := c.Reachable(roots, "cha", nil)
	c.Rule("C15/roots", "entry points outside per-transaction recovery: both governance handlers, module Begin/EndBlock/InitGenesis, app InitChainer/BeginBlocker/EndBlocker", 12)
	for _, r := range roots {
		c.Ok("C15/roots", funcName(r), r.Pos(), "root")
	}
	c.Rule("C15/panic-source", "every panic source (explicit panic, Must* call, known may-panic callee, integer / or % by a non-constant, constant index / slice bound on a slice or string, unchecked type assertion) in code reachable from the roots is discharged by a class rule, a local guard, a validated-field fact (guard present in the stateless validator, re-checked every run) or an audited entry with a reason", 40)
	var fns []*ssa.Function
	for f := range reach {
		if inScope(f) {
			fns = append(fns, f)
		}
	}
	sort.Slice(fns, func(i, j int) bool { return funcName(fns[i]) < funcName(fns[j]) })
	nsites := 0
	for _, f := range fns {
		c.Touch(f)
		fa := c.P.FA(f)
		for k, s := range panicSites(c, f) {
			nsites++
			construct := fmt.Sprintf("%s|%s|%s", funcName(f), s.Kind, trunc(s.What))
			_ = k
			// class rules
			if s.Kind == "must-call" {
				last := s.What[strings.LastIndex(s.What, ".")+1:]
				if codecMust[last] {
					c.Ok("C15/panic-source", construct, s.Pos, "class: codec (un)marshalling of a registered proto type")
					continue
				}
			}
			if s.Kind == "panic" && strings.HasPrefix(f.Name(), "Must") {
				c.Ok("C15/panic-source", construct, s.Pos, "class: body of a Must* helper (its call sites are the panic sources)")
				continue
			}
			// local guard for division
			if s.Kind == "div" {
				if bo, ok := s.Ins.(*ssa.BinOp); ok {
					d := fa.X.E(bo.Y).String()
					conds := fa.PathCondStrings(bo.Block())
					if conds["("+d+" != 0)"] || conds["(0 != "+d+")"] || conds["(0 < "+d+")"] {
						c.Ok("C15/panic-source", construct, s.Pos, "local guard: divisor tested non-zero")
						continue
					}
				}
			}
			if s.Kind == "ignored-parse" {
				// validated-field fact, derived automatically: the stateless validator of the parameter's type performs the
				// very same parse on the very same field and rejects when it fails
				okAuto := false
				for pi, prm := range f.Params {
					pt := prm.Type()
					if ptr, ok := pt.(*types.Pointer); ok {
						pt = ptr.Elem()
					}
					nt, ok := pt.(*types.Named)
					if !ok || nt.Obj().Pkg() == nil || !strings.HasPrefix(nt.Obj().Pkg().Path(), modPath) {
						continue
					}
					tag := fmt.Sprintf("$%d.", pi)
					if !strings.Contains(s.What, tag) {
						continue
					}
					var vb *ssa.Function
					for _, recv := range []types.Type{nt, types.NewPointer(nt)} {
						ms := c.P.SSA.MethodSets.MethodSet(recv)
						for k := 0; k < ms.Len(); k++ {
							if ms.At(k).Obj().Name() == "ValidateBasic" {
								vb = c.P.unwrap(c.P.SSA.MethodValue(ms.At(k)))
							}
						}
					}
					if vb == nil || len(vb.Blocks) == 0 {
						continue
					}
					want := strings.ReplaceAll(s.What, tag, "$0.")
					for g := range c.P.FA(vb).GuardSet() {
						if strings.HasSuffix(g, "reject !"+want+"#1") || strings.HasSuffix(g, "reject ("+want+"#1 != nil)") {
							okAuto = true
						}
					}
				}
				if okAuto {
					c.Ok("C15/panic-source", construct, s.Pos, "validated-field fact: ValidateBasic performs the same parse on the same field and rejects on failure")
					continue
				}
			}
			var hit *audit
			for _, a := range audits { // most specific first: the description ends with the audited fragment
				if ownedBy(c, f, a.fn) && a.kind == s.Kind && strings.HasSuffix(s.What, a.what) {
					hit = a
					break
				}
			}
			if hit == nil {
				for _, a := range audits {
					if ownedBy(c, f, a.fn) && a.kind == s.Kind && strings.Contains(s.What, a.what) {
						hit = a
						break
					}
				}
			}
			if hit == nil && c.P.Absorbed(f) {
				// the site sits in a helper that exists only inlined: read it where it was inlined, in the terms of each
				// function that owns a copy (an extracted helper names the owner's `msg.From` as its own parameter)
				matched, all := 0, true
				for _, o := range c.P.OwnerFns(f) {
					if o == f {
						continue
					}
					for _, cs := range panicSitesF(c, o, func(ins ssa.Instruction) bool {
						return c.P.IsClone(ins) && c.P.OriginFn(ins) == f && ins.Pos() == s.Pos
					}) {
						if cs.Kind != s.Kind {
							continue
						}
						var oh *audit
						for _, a := range audits {
							if a.fn == funcName(o) && a.kind == cs.Kind && strings.Contains(cs.What, a.what) {
								oh = a
								break
							}
						}
						oconstruct := fmt.Sprintf("%s|%s|%s", funcName(o), cs.Kind, trunc(cs.What))
						if oh == nil {
							all = false
							c.Bad("C15/panic-source", oconstruct, cs.Pos, fmt.Sprintf("unaudited panic source (%s) reachable outside transaction recovery via %s (in helper %s)", cs.Kind, pathTo(reach, o), funcName(f)))
							matched++
							continue
						}
						matched++
						oh.hits++
						ok, why := true, ""
						for _, n := range oh.needs {
							if !hasGuardQuiet(c, n.fn, n.guard) {
								ok = false
								why += fmt.Sprintf("validator %s lacks the rejecting guard %s; ", n.fn, n.guard)
							}
						}
						if oh.check != nil {
							if o2, w := oh.check(c); !o2 {
								ok = false
								why += w
							}
						}
						c.Req(ok, "C15/panic-source", oconstruct, cs.Pos, "audited: "+oh.reason+" (site in the extracted helper "+funcName(f)+")", fmt.Sprintf("panic source (%s) whose discharge (%s) no longer holds: %s", cs.Kind, oh.reason, why))
					}
				}
				_ = all
				if matched > 0 {
					continue
				}
			}
			if hit == nil {
				path := pathTo(reach, f)
				c.Bad("C15/panic-source", construct, s.Pos, fmt.Sprintf("unaudited panic source (%s) reachable outside transaction recovery via %s", s.Kind, path))
				continue
			}
			hit.hits++
			if c.P.Absorbed(f) {
				// a site inside a shared helper stands for the same site in every function the helper was inlined into
				for _, a := range audits {
					if a != hit && ownedBy(c, f, a.fn) && a.kind == s.Kind && strings.Contains(s.What, a.what) {
						a.hits++
					}
				}
			}
			ok, why := true, ""
			for _, n := range hit.needs {
				if !hasGuardQuiet(c, n.fn, n.guard) {
					ok = false
					why += fmt.Sprintf("validator %s lacks the rejecting guard %s; ", n.fn, n.guard)
				}
			}
			if hit.check != nil {
				if o, w := hit.check(c); !o {
					ok = false
					why += w
				}
			}
			c.Req(ok, "C15/panic-source", construct, s.Pos, "audited: "+hit.reason, fmt.Sprintf("panic source (%s) whose discharge (%s) no longer holds: %s — reachable via %s", s.Kind, hit.reason, why, pathTo(reach, f)))
		}
	}
	c.Extra["reachable_functions"] = len(fns)
	c.Extra["panic_sources_examined"] = nsites
	c.Rule("C15/result-used-only-after-its-error-was-ruled-out", "in code reachable outside transaction recovery a pointer returned together with an error is dereferenced only where the error has been tested nil (or the pointer non-nil)", 1)
	resultUsedAfterErrorCheck(c, "C15/result-used-only-after-its-error-was-ruled-out", fns)
	c.Rule("C15/imported-metadata-cannot-shadow-client-state", "the client genesis import writes the free-form client metadata before the client and consensus states, never after them: a validated genesis whose metadata uses a reserved key cannot leave undecodable bytes where a client state is expected (the next client proposal would panic in MustUnmarshalClientState)", 2)
	{
		ig := c.F("x/xibc/core/client.InitGenesis")
		neverBefore(c, "C15/imported-metadata-cannot-shadow-client-state", ig, "keeper.(Keeper).SetClientState", "keeper.(Keeper).SetAllClientMetadata",
			"metadata is written before any client state", "SetAllClientMetadata runs after SetClientState: a metadata entry under the reserved key clientState overwrites the imported client state")
		neverBefore(c, "C15/imported-metadata-cannot-shadow-client-state", ig, "keeper.(Keeper).SetClientConsensusState", "keeper.(Keeper).SetAllClientMetadata",
			"metadata is written before any consensus state", "SetAllClientMetadata runs after SetClientConsensusState: a metadata entry under a consensus-state key overwrites the imported consensus state")
	}
	c.Rule("C15/pair-id-only-of-a-found-pair", "in code reachable outside transaction recovery TokenPair.GetID (which indexes the first denomination) is applied to a pair read from the store only where the lookup's found result is true", 1)
	idOnlyOfFoundPair(c, "C15/pair-id-only-of-a-found-pair", fns)
	c.Rule("C15/no-failure-reported-as-success", "on the failure edge of one error no function returns another error value that is provably nil at that point (a wrapped stale `err` instead of the error just tested): a failed step is never reported as success", 1)
	noFailureAsSuccess(c, "C15/no-failure-reported-as-success", fns)
	c.Rule("C15/audit-table-live", "every audited entry still matches a site (stale entries are reported so the table cannot silently over-approve)", 25)
	for _, a := range audits {
		c.Req(a.hits > 0, "C15/audit-table-live", a.fn+"|"+a.kind+"|"+a.what, token.NoPos, "", "audited entry matches no site any more (remove or update it)")
	}
	if os.Getenv("XLINT_C15_INVENTORY") != "" {
		for _, f := range fns {
			for _, s := range panicSites(c, f) {
				fmt.Printf("%-12s %-60s %s  @%s\n", s.Kind, funcName(f), trunc(s.What), c.P.Pos(s.Pos))
			}
		}
	}
}

// ownedBy: the audited function is f itself, or f is a helper that exists only inlined into it.
func ownedBy(c *Check, f *ssa.Function, audited string) bool {
	if funcName(f) == audited {
		return true
	}
	// the audited function no longer exists (folded by hand into its caller): a site in the same package carries the audit
	if !c.fnExists(audited) {
		if i := strings.LastIndex(audited, "."); i > 0 && strings.Contains(audited[:i], "/") {
			pkg := audited[:i]
			if j := strings.Index(pkg, ".("); j > 0 {
				pkg = pkg[:j]
			}
			if strings.HasPrefix(funcName(f), pkg+".") {
				return true
			}
		}
	}
	if c.P.Absorbed(f) {
		for _, o := range c.P.Owners(f) {
			if o == audited {
				return true
			}
		}
	}
	return false
}

// fnExists: some function of the program has this canonical name.
func (c *Check) fnExists(name string) bool {
	if c.fnNames == nil {
		c.fnNames = map[string]bool{}
		for fn := range c.P.AllFuncs {
			if inTeleport(fn) {
				c.fnNames[funcName(fn)] = true
			}
		}
	}
	return c.fnNames[name]
}
