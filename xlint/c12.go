package main

import (
	"fmt"
	"strings"

	"golang.org/x/tools/go/ssa"
)

func init() { register("C12", c12) }

const agK = "x/aggregate/keeper."

func normAddr(s string) string {
	for _, w := range []string{"go-ethereum/common.HexToAddress(go-ethereum/common.(Address).String(", "go-ethereum/common.HexToAddress(go-ethereum/common.(Address).Hex("} {
		if strings.HasPrefix(s, w) && strings.HasSuffix(s, "))") {
			return s[len(w) : len(s)-2]
		}
	}
	return s
}

func c12(c *Check) {
	c.Declined = []string{
		"registry consistency as an invariant over arbitrary sequences of governance actions (only the per-function index discipline is decided)",
		"'a coin convertible before a registry change is still convertible afterwards' as behaviour",
		"duplicate pairs inside a genesis file beyond what types.GenesisState.Validate checks",
	}
	c.Trusted = []string{"KVStore semantics", "gov handler atomicity", "go/ssa"}

	regFns := []string{"RegisterCoin", "AddCoin", "RegisterERC20", "UpdateTokenPairERC20"}

	c.Rule("C12/guard-key-is-write-key", "a registration function that indexes a denomination D (or contract A) for a pair has tested exactly that D (A) as not-yet-registered on every path to the write; freshly deployed contracts are exempt; values produced by CreateCoinMetadata are guarded inside it", 7)
	guardKeyIsWriteKey(c, "C12/guard-key-is-write-key", regFns)

	c.Rule("C12/three-way-write", "whoever stores a pair P also indexes it under id=P.GetID() by its contract address and by all of P.Denoms (AddCoin: the added denom, id unchanged; ToggleRelay: only Enabled changes); after DeleteTokenPair the whole pair is re-indexed", 14)
	threeWay := func(fnSpec string, wantAddr func(p string) []string) {
		threeWayRule(c, "C12/three-way-write", fnSpec, wantAddr)
	}
	pairAddr := func(p string) []string {
		// P.ERC20Address as an address
		return []string{"go-ethereum/common.HexToAddress(" + p + ".ERC20Address)", "aggregate/types.(TokenPair).GetERC20Contract(" + p + ")"}
	}
	for _, name := range []string{"RegisterCoin", "RegisterERC20"} {
		fn := c.F(agK + "Keeper." + name)
		sets := c.Calls(fn, "keeper.(Keeper).SetTokenPair")
		if len(sets) == 1 {
			pe := c.P.ArgExprs(sets[0])[2]
			addr := normAddr("go-ethereum/common.HexToAddress(" + c.P.Ex(fn).mkField("ERC20Address", nil, pe).String() + ")")
			threeWay(agK+"Keeper."+name, func(string) []string { return []string{addr} })
		} else {
			threeWay(agK+"Keeper."+name, pairAddr)
		}
	}
	threeWay("x/aggregate.InitGenesis", pairAddr)
	// UpdateTokenPairERC20: delete-all then re-index everything, new address = parameter
	threeWay(agK+"Keeper.UpdateTokenPairERC20", func(string) []string { return []string{"$3"} })
	updateDeletesBeforeAddressChange(c, "C12/three-way-write")
	// AddCoin
	add := c.F(agK + "Keeper.AddCoin")
	am := Macros{"P": "cell<aggregate/keeper.(Keeper).GetTokenPair($0, $1, aggregate/keeper.(Keeper).GetERC20Map($0, $1, go-ethereum/common.HexToAddress($3)))#0 | aggregate/types.TokenPair{Denoms: append(aggregate/keeper.(Keeper).GetTokenPair($0, $1, aggregate/keeper.(Keeper).GetERC20Map($0, $1, go-ethereum/common.HexToAddress($3)))#0.Denoms, [$2.Base])}>"}
	_ = am
	{
		sets := c.Calls(add, "keeper.(Keeper).SetTokenPair")
		dm := c.Calls(add, "keeper.(Keeper).SetDenomMap")
		if c.Req(len(sets) == 1 && len(dm) == 1, "C12/three-way-write", funcName(add)+"/SetTokenPair+SetDenomMap", add.Pos(), "", "AddCoin must store the pair once and index the added denomination once") {
			p := c.P.ArgExprs(sets[0])[2].String()
			id := "aggregate/types.(TokenPair).GetID(" + p + ")"
			a := c.P.ArgExprs(dm[0])
			c.Req(a[3].String() == id, "C12/three-way-write", funcName(add)+"/added denom indexed under the pair's id", dm[0].Ins.Pos(), "", "added denomination is indexed under "+trunc(a[3].String())+" instead of the stored pair's id")
			c.Req(strings.Contains(p, "["+a[2].String()+"]"), "C12/three-way-write", funcName(add)+"/indexed denom is the appended denom", dm[0].Ins.Pos(), "", "the denomination indexed ("+a[2].String()+") is not the one appended to pair.Denoms")
			// id unchanged guard
			found := false
			for g := range c.P.FA(add).GuardSet() {
				if strings.Contains(g, " != ") && strings.Contains(g, "GetERC20Map(") && strings.Contains(g, "(TokenPair).GetID(") {
					found = true
				}
			}
			c.Req(found, "C12/three-way-write", funcName(add)+"/id-unchanged guard", add.Pos(), "rejects when the pair id would change", "AddCoin no longer rejects when appending the denomination changes the pair id (address index would dangle)")
		}
	}
	// ToggleRelay stores no field but Enabled
	tog := c.F(agK + "Keeper.ToggleRelay")
	for _, b := range tog.Blocks {
		for _, ins := range b.Instrs {
			if st, ok := ins.(*ssa.Store); ok {
				if fa, ok := st.Addr.(*ssa.FieldAddr); ok {
					n := derefStruct(fa.X.Type()).Field(fa.Field).Name()
					c.Req(n == "Enabled", "C12/three-way-write", funcName(tog)+"/stores only Enabled ("+n+")", st.Pos(), "", "ToggleRelay modifies field "+n+" of the pair without re-indexing")
				}
			}
		}
	}
	c.WhoMayCall("C12/three-way-write", c.F(agK+"Keeper.SetTokenPair"), "keeper.(Keeper).RegisterCoin", "keeper.(Keeper).AddCoin", "keeper.(Keeper).RegisterERC20", "keeper.(Keeper).ToggleRelay", "keeper.(Keeper).UpdateTokenPairERC20", "x/aggregate.InitGenesis")

	c.Rule("C12/delete-all-indexes", "DeleteTokenPair removes the pair, its contract entry and each of its denominations", 3)
	// the three unexported accessors may have been folded into DeleteTokenPair by hand: the raw delete then sits in
	// DeleteTokenPair itself and is checked there
	delFn := c.F(agK + "Keeper.DeleteTokenPair")
	missingAcc := map[string]bool{}
	for _, d := range []struct{ label, acc, prefix, argWant, rawKey string }{
		{"pair", "deleteTokenPair", "⟨const:1⟩", "aggregate/types.(TokenPair).GetID($2)", "aggregate/types.(TokenPair).GetID($2)"},
		{"contract", "deleteERC20Map", "⟨const:2⟩", "go-ethereum/common.HexToAddress($2.ERC20Address)", "go-ethereum/common.(Address).Bytes(go-ethereum/common.HexToAddress($2.ERC20Address))"},
		{"denoms", "deleteDenomMap", "⟨const:3⟩", "$2.Denoms[μ{0}]", "$2.Denoms[μ{0}]"},
	} {
		if c.P.FuncOpt(agK+"Keeper."+d.acc) != nil {
			c.Spec("C12/delete-all-indexes", Macros{}, FnSpec{Fn: agK + "Keeper.DeleteTokenPair", Effects: []Eff{
				{Label: d.label, Callee: "keeper.(Keeper)." + d.acc, N: 1, Args: map[int]string{2: d.argWant}}}})
			continue
		}
		missingAcc[d.acc] = true
		n, okKey := 0, false
		got := ""
		for _, w := range c.P.StoreWrites() {
			if w.Fn == delFn && w.Op == "Delete" && strings.HasPrefix(w.Full(c.P), d.prefix) {
				n++
				got = normAddr(w.Key.String())
				okKey = got == normAddr(d.rawKey)
			}
		}
		c.Req(n == 1 && okKey, "C12/delete-all-indexes", "aggregate/keeper.(Keeper).DeleteTokenPair/effect:"+d.label, delFn.Pos(), "raw delete at "+d.rawKey,
			fmt.Sprintf("DeleteTokenPair holds %d raw delete(s) in the %s family, key %s (required: one, at %s)", n, d.label, trunc(got), d.rawKey))
	}

	c.Rule("C12/who-writes-registry", "raw writes to the three registry prefixes happen only inside the accessor functions; accessors are called only from the registration functions, DeleteTokenPair, SetDenomsMap and InitGenesis; DeleteTokenPair only from the update proposal and the self-destruct clean-up of the two conversion entry points", 12)
	acc := map[string]string{"⟨const:1⟩": "SetTokenPair|deleteTokenPair", "⟨const:2⟩": "SetERC20Map|deleteERC20Map", "⟨const:3⟩": "SetDenomMap|deleteDenomMap"}
	for _, w := range c.P.StoreWrites() {
		full := w.Full(c.P)
		for pre, fns := range acc {
			if strings.HasPrefix(full, pre) {
				ok := false
				for _, f := range strings.Split(fns, "|") {
					if strings.HasSuffix(funcName(w.Fn), "keeper.(Keeper)."+f) {
						ok = true
					}
					if missingAcc[f] && w.Op == "Delete" && w.Fn == delFn {
						ok = true // the delete accessor was folded into DeleteTokenPair
					}
				}
				c.Req(ok, "C12/who-writes-registry", "raw "+w.Op+" "+pre+" in "+funcName(w.Fn), w.Pos, "accessor", "raw registry write outside the accessor functions: "+funcName(w.Fn))
			}
		}
	}
	regs := []string{"keeper.(Keeper).RegisterCoin", "keeper.(Keeper).AddCoin", "keeper.(Keeper).RegisterERC20", "keeper.(Keeper).UpdateTokenPairERC20", "x/aggregate.InitGenesis"}
	c.WhoMayCall("C12/who-writes-registry", c.F(agK+"Keeper.SetERC20Map"), regs...)
	c.WhoMayCall("C12/who-writes-registry", c.F(agK+"Keeper.SetDenomMap"), append(regs, "keeper.(Keeper).SetDenomsMap")...)
	c.WhoMayCall("C12/who-writes-registry", c.F(agK+"Keeper.SetDenomsMap"), regs...)
	for _, d := range []string{"deleteTokenPair", "deleteERC20Map", "deleteDenomMap"} {
		if !missingAcc[d] {
			c.WhoMayCall("C12/who-writes-registry", c.F(agK+"Keeper."+d), "keeper.(Keeper).DeleteTokenPair")
		}
	}
	c.WhoMayCall("C12/who-writes-registry", c.F(agK+"Keeper.DeleteTokenPair"), "keeper.(Keeper).UpdateTokenPairERC20", "keeper.(Keeper).ConvertCoin", "keeper.(Keeper).ConvertERC20")

	c.Rule("C12/add-coin-keeps-the-pair", "AddCoin stores the pair it loaded with nothing but the denomination list changed: contract address, owner and the enabled flag of the existing pair are kept (a pair disabled by governance stays disabled when a coin is added)", 1)
	addCoinKeepsPair(c, "C12/add-coin-keeps-the-pair")
	c.Rule("C12/conversion-resolves-through-the-indexes", "frozen table (shared with C11/gate): MintingEnabled resolves the message's token and denomination through the registry indexes and requires both to name the same stored pair, so every denomination the registry lists for a pair can be converted, in either direction, after any registry change", 5)
	c.FrozenFiltered("C11", "C12/conversion-resolves-through-the-indexes", func(fn string) bool { return strings.HasSuffix(fn, "Keeper.MintingEnabled") })
	c.Rule("C12/registered-tests-read-their-own-index", "IsDenomRegistered answers from the by-denomination index at exactly the denomination it is given, IsERC20Registered from the by-contract index at exactly the address bytes: the uniqueness guards of the registration functions mean what their names say for every input (no resolver that guesses the kind of the token from its spelling)", 2)
	registeredTestsReadOwnIndex(c, "C12/registered-tests-read-their-own-index")
	c.Rule("C12/resolver-uses-the-index-of-the-token-kind", "GetTokenPairID resolves a hex address through the by-contract index and everything else — every denomination, vouchers included — through the by-denomination index at exactly the string given: a pair is found by each of its denominations whatever contract it currently names", 3)
	{
		byAddr := "aggregate/keeper.(Keeper).GetERC20Map($0, $1, go-ethereum/common.HexToAddress($2))"
		byDenom := "store/prefix.(Store).Get(store/prefix.NewStore(cosmos-sdk/types.(Context).KVStore($1, $0.storeKey), g:aggregate/types.KeyPrefixTokenPairByDenom), $2)"
		c.Spec("C12/resolver-uses-the-index-of-the-token-kind", Macros{}, FnSpec{Fn: agK + "Keeper.GetTokenPairID",
			Returns: []Ret{{Label: "one of the two indexes at the given token", Index: 0, Want: []string{byAddr, byDenom, "aggregate/keeper.(Keeper).GetDenomMap($0, $1, $2)"}}},
			RetAts:  []RetAt{{Label: "by-contract only for a hex address", Index: 0, Want: byAddr, Under: []string{"go-ethereum/common.IsHexAddress($2)"}}},
		})
	}
	c.Rule("C12/conversion-pays-the-requested-denomination", "frozen table (shared with C11/conversions): each conversion function escrows / releases the coin of the denomination named in the message, so a coin of any denomination the registry lists for a pair converts back into that same coin", 20)
	c.FrozenFiltered("C11", "C12/conversion-pays-the-requested-denomination", func(fn string) bool { return strings.Contains(fn, "Keeper.convert") })
	c.Rule("C12/toggle-changes-only-the-flag", "ToggleRelay stores the pair it loaded with nothing but the enabled flag flipped: address spelling, denominations and owner — and with them the pair's id and its index entries — stay what they were", 1)
	{
		tg := c.F(agK + "Keeper.ToggleRelay")
		sets := c.Calls(tg, "keeper.(Keeper).SetTokenPair")
		c.Req(len(sets) == 1, "C12/toggle-changes-only-the-flag", funcName(tg)+"/one SetTokenPair", tg.Pos(), "", fmt.Sprintf("%d SetTokenPair sites in ToggleRelay", len(sets)))
		for _, cs := range sets {
			arg := c.P.ArgExprs(cs)[2]
			fromLoad, other := false, ""
			arg.Walk(func(e *Expr) {
				if e.IsCall("keeper.(Keeper).GetTokenPair") {
					fromLoad = true
				}
				if e.Op == "kv" && e.Name != "Enabled" {
					other = e.Name
				}
				if e.IsCall("types.NewTokenPair") {
					other = "NewTokenPair"
				}
			})
			c.Req(fromLoad && other == "", "C12/toggle-changes-only-the-flag", funcName(tg)+"/stored pair", cs.Ins.Pos(), "the loaded pair with only Enabled assigned",
				"ToggleRelay stores "+trunc(arg.String())+": the stored pair is not the loaded pair with only its Enabled flag assigned ("+other+"), so its address spelling / denominations / owner — and with them its id — can change")
		}
	}
	c.Rule("C12/id-depends-on", "the pair id hashes the contract address and the first denomination only (so functions changing either must re-index, see three-way-write)", 1)
	for _, w := range c.P.StoreWrites() {
		if strings.HasSuffix(funcName(w.Fn), "keeper.(Keeper).SetTokenPair") {
			c.Req(w.Shape == "⟨v:crypto/tmhash.Sum(⟨v:$2.ERC20Address⟩|⟨v:$2.Denoms[0]⟩)⟩", "C12/id-depends-on", "SetTokenPair key", w.Pos, w.Shape, "pair key shape changed: "+w.Shape)
		}
	}
}

// before: a executes before b on every path that reaches b (same block earlier, or a's block dominates b's).
func before(a, b ssa.Instruction) bool {
	if a.Block() == b.Block() {
		return instrIndex(a) < instrIndex(b)
	}
	return domOf(a.Parent()).dominates(a.Block(), b.Block())
}

// threeWayRule: whoever stores a pair also indexes its contract and all of its denominations under the pair's id.
func threeWayRule(c *Check, rule, fnSpec string, wantAddr func(p string) []string) {
	// the id hashes ERC20Address and Denoms[0]: no store to either field may follow a GetID() of the function
	// (the record would be keyed by another id than the one its index entries carry)
	{
		fn0 := c.F(fnSpec)
		var idCalls []ssa.Instruction
		for _, cs := range c.Calls(fn0, "aggregate/types.(TokenPair).GetID") {
			idCalls = append(idCalls, cs.Ins)
		}
		for _, b := range fn0.Blocks {
			for _, ins := range b.Instrs {
				st, ok := ins.(*ssa.Store)
				if !ok {
					continue
				}
				fa, ok := st.Addr.(*ssa.FieldAddr)
				if !ok || !strings.HasSuffix(typeStr(fa.X.Type()), "aggregate/types.TokenPair") {
					continue
				}
				name := derefStruct(fa.X.Type()).Field(fa.Field).Name()
				if name != "ERC20Address" && name != "Denoms" {
					continue
				}
				okOrder := true
				for _, ic := range idCalls {
					if before(ic, st) {
						okOrder = false
					}
				}
				c.Req(okOrder, rule, funcName(fn0)+"/"+name+" not rewritten after the id was taken", st.Pos(), "", "pair."+name+" is assigned after pair.GetID() was evaluated: the stored record and its index entries end up under different ids")
			}
		}
	}
	fn := c.F(fnSpec)
	sets := c.Calls(fn, "keeper.(Keeper).SetTokenPair")
	if !c.Req(len(sets) == 1, rule, funcName(fn)+"/SetTokenPair", fn.Pos(), "1 site", fmt.Sprintf("%d SetTokenPair sites", len(sets))) {
		return
	}
	p := c.P.ArgExprs(sets[0])[2].String()
	id := "aggregate/types.(TokenPair).GetID(" + p + ")"
	// denoms
	okD := false
	var seenD []string
	for _, cs := range c.Calls(fn, "keeper.(Keeper).SetDenomsMap") {
		a := c.P.ArgExprs(cs)
		seenD = append(seenD, "SetDenomsMap("+trunc(a[2].String())+")")
		pd := c.P.Ex(fn).mkField("Denoms", nil, c.P.ArgExprs(sets[0])[2]).String()
		if a[2].String() == pd && a[3].String() == id {
			okD = true
		}
	}
	for _, cs := range c.Calls(fn, "keeper.(Keeper).SetDenomMap") {
		seenD = append(seenD, "SetDenomMap("+trunc(c.P.ArgExprs(cs)[2].String())+")")
	}
	c.Req(okD, rule, funcName(fn)+"/all denominations indexed", sets[0].Ins.Pos(), "SetDenomsMap(P.Denoms, P.GetID())", fmt.Sprintf("pair is stored but not indexed under all of its denominations with its own id; denom index writes seen: %v", seenD))
	okA := false
	var seenA []string
	for _, cs := range c.Calls(fn, "keeper.(Keeper).SetERC20Map") {
		a := c.P.ArgExprs(cs)
		seenA = append(seenA, trunc(a[2].String()))
		for _, w := range wantAddr(p) {
			if normAddr(a[2].String()) == w && a[3].String() == id {
				okA = true
			}
		}
	}
	c.Req(okA, rule, funcName(fn)+"/contract indexed", sets[0].Ins.Pos(), "SetERC20Map(P's contract, P.GetID())", fmt.Sprintf("pair is stored but its contract address is not indexed with its own id; seen: %v", seenA))
}

// addCoinKeepsPair: see C12/add-coin-keeps-the-pair (shared with C11).
func addCoinKeepsPair(c *Check, rule string) {
	ac := c.F(agK + "Keeper.AddCoin")
	for _, cs := range c.Calls(ac, "keeper.(Keeper).SetTokenPair") {
		arg := c.P.ArgExprs(cs)[2]
		fromLoad, rebuilt := false, ""
		arg.Walk(func(e *Expr) {
			if e.IsCall("keeper.(Keeper).GetTokenPair") {
				fromLoad = true
			}
			if e.Op == "kv" && (e.Name == "Enabled" || e.Name == "ContractOwner" || e.Name == "ERC20Address") {
				rebuilt = e.Name
			}
			if e.IsCall("types.NewTokenPair") {
				rebuilt = "NewTokenPair"
			}
		})
		c.Req(fromLoad && rebuilt == "", rule, funcName(ac)+"/stored pair", cs.Ins.Pos(), "loaded pair with Denoms extended", "AddCoin stores "+trunc(arg.String())+": the stored pair is rebuilt ("+rebuilt+") instead of being the loaded pair with one more denomination, so flags of the existing pair (enabled, owner) are reset")
	}
}

// guardKeyIsWriteKey: see C12/guard-key-is-write-key (also armed for C11: the backing of a token rests on no contract
// and no denomination belonging to two pairs).
func guardKeyIsWriteKey(c *Check, rule string, regFns []string) {
	for _, name := range regFns {
		fn := c.F(agK + "Keeper." + name)
		fa := c.P.FA(fn)
		for _, cs := range append(c.Calls(fn, "keeper.(Keeper).SetDenomMap"), c.Calls(fn, "keeper.(Keeper).SetDenomsMap")...) {
			args := c.P.ArgExprs(cs)
			var denoms []*Expr
			if args[2].Op == "list" {
				denoms = args[2].Args
			} else {
				denoms = []*Expr{args[2]}
			}
			conds := fa.PathCondStrings(cs.Ins.Block())
			for _, d := range denoms {
				ds := d.String()
				construct := fmt.Sprintf("%s indexes denom %s", funcName(fn), trunc(ds))
				switch {
				case strings.Contains(ds, "(Keeper).GetTokenPair("):
					c.Ok(rule, construct, cs.Ins.Pos(), "re-indexing a denomination of an already stored pair (see C12/three-way-write)")
				case strings.Contains(ds, "(Keeper).CreateCoinMetadata(") && strings.HasSuffix(ds, "#0.Name"):
					helper := c.F(agK + "Keeper.CreateCoinMetadata")
					hfa := c.P.FA(helper)
					var nameVal string
					for _, r := range c.P.RetExprs(helper, 0) {
						if r.Op == "lit" {
							for _, kv := range r.Args {
								if kv.Name == "Name" {
									nameVal = kv.Args[0].String()
								}
							}
						}
					}
					_, ok := hfa.GuardSet()["reject aggregate/keeper.(Keeper).IsDenomRegistered($0, $1, "+nameVal+")"]
					c.Req(ok && nameVal != "", rule, construct, cs.Ins.Pos(), "CreateCoinMetadata rejects when its Name value "+nameVal+" is registered", "CreateCoinMetadata does not reject an already registered value of the metadata Name it returns ("+nameVal+")")
				default:
					want := "!aggregate/keeper.(Keeper).IsDenomRegistered($0, $1, " + ds + ")"
					var tested []string
					for k := range conds {
						if strings.Contains(k, "IsDenomRegistered(") {
							tested = append(tested, k)
						}
					}
					c.Req(conds[want], rule, construct, cs.Ins.Pos(), "guarded by "+want, fmt.Sprintf("denomination %s is indexed but the not-registered test on the paths to this write is on %v: two pairs can end up claiming the same denomination", ds, tested))
				}
			}
		}
		for _, cs := range c.Calls(fn, "keeper.(Keeper).SetERC20Map") {
			args := c.P.ArgExprs(cs)
			a := normAddr(args[2].String())
			construct := fmt.Sprintf("%s indexes contract %s", funcName(fn), trunc(a))
			if strings.Contains(a, "(Keeper).DeployERC20Contract(") {
				c.Ok(rule, construct, cs.Ins.Pos(), "freshly deployed contract address")
				continue
			}
			want := "!aggregate/keeper.(Keeper).IsERC20Registered($0, $1, " + a + ")"
			c.Req(fa.PathCondStrings(cs.Ins.Block())[want], rule, construct, cs.Ins.Pos(), "guarded by "+want, fmt.Sprintf("contract %s is indexed without a dominating not-registered test on that same address: one contract can end up in two pairs", a))
		}
	}
}

func registeredTestsReadOwnIndex(c *Check, rule string) {
	ks := "store/prefix.NewStore(cosmos-sdk/types.(Context).KVStore($1, $0.storeKey), g:aggregate/types.%s)"
	c.Spec(rule, Macros{}, FnSpec{Fn: agK + "Keeper.IsDenomRegistered",
		Returns: []Ret{{Label: "has(by-denom index, denom)", Index: 0, Want: []string{"store/prefix.(Store).Has(" + fmt.Sprintf(ks, "KeyPrefixTokenPairByDenom") + ", $2)"}}}})
	c.Spec(rule, Macros{}, FnSpec{Fn: agK + "Keeper.IsERC20Registered",
		Returns: []Ret{{Label: "has(by-contract index, address bytes)", Index: 0, Want: []string{"store/prefix.(Store).Has(" + fmt.Sprintf(ks, "KeyPrefixTokenPairByERC20") + ", go-ethereum/common.(Address).Bytes($2))"}}}})
}

// updateDeletesBeforeAddressChange: UpdateTokenPairERC20 removes the old record and indexes before the address (and with
// it the id) changes, then stores the new pair (also armed for C13: otherwise two records share the denominations and the
// exported registry does not validate).
func updateDeletesBeforeAddressChange(c *Check, rule string) {
	upd := c.F(agK + "Keeper.UpdateTokenPairERC20")
	dels := c.Calls(upd, "keeper.(Keeper).DeleteTokenPair")
	setsU := c.Calls(upd, "keeper.(Keeper).SetTokenPair")
	if c.Req(len(dels) == 1 && len(setsU) == 1, rule, funcName(upd)+"/delete-then-set", upd.Pos(), "", "UpdateTokenPairERC20 must delete the old pair once and store the new one once") {
		var addrStore ssa.Instruction
		for _, b := range upd.Blocks {
			for _, ins := range b.Instrs {
				if st, ok := ins.(*ssa.Store); ok {
					if fa, ok := st.Addr.(*ssa.FieldAddr); ok && derefStruct(fa.X.Type()).Field(fa.Field).Name() == "ERC20Address" {
						addrStore = st
					}
				}
			}
		}
		ok := addrStore != nil && before(dels[0].Ins, addrStore) && before(addrStore, setsU[0].Ins)
		c.Req(ok, rule, funcName(upd)+"/old indexes removed before the address changes", dels[0].Ins.Pos(), "DeleteTokenPair(old) → pair.ERC20Address = new → SetTokenPair", "the old pair's index entries are not removed before the address (and id) change")
	}
}
