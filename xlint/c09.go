package main

import (
	"fmt"
	"go/token"
	"strings"

	"golang.org/x/tools/go/ssa"
)

func init() { register("C09", c09) }

func c09(c *Check) {
	c.Declined = []string{
		"correctness of ecrecover / sealHash with respect to real BSC blocks (cryptography, third-party)",
		"histories across epoch boundaries with growing and shrinking validator sets (only the per-header structure is decided)",
	}
	c.Trusted = []string{"go-ethereum crypto.Ecrecover, rlp", "go/ssa"}
	c.Assume = []string{"guards and bindings were selected by source position at freeze time (xlint/picks/C09.txt) and are compared in canonical form"}
	c.Rule("C09/guards", "frozen table: structural header validity (vanity+seal length, zero mix digest, no uncles, non-zero difficulty), validator bytes only on epoch blocks and a multiple of 20, direct child of the head (number+1 and parent hash), gas bounds, seal recovered and equal to the coinbase, signer in the snapshot of the current validator set, signer not among the recent floor(N/2)+1 window, in-turn ⇒ difficulty 2 / out-of-turn ⇒ difficulty 1 with in-turn = sorted validators[(number+1) mod n], signer recorded, pending set stored only at epoch blocks from the header's extra data, switch to the pending set only at offset len(validators)/2, consensus state = header root/height/time, head := header; success returns dominated by all guards", 45)
	n := c.Frozen("C09")
	c.Extra["frozen_entries"] = n
	c.Rule("C09/pending-set-recorded-before-switch", "within one update the list announced by an epoch header is recorded (SetPendingValidators) before the switch block can read the pending list (GetPendingValidators): with a single validator the switch offset floor(1/2) is 0, the epoch header is also the switch header, and the set that becomes active must be the one that very header carries", 1)
	c.Rule("C09/no-stale-validator-set", "the BSC update does not keep using, after it switched clientState.Validators, a value it derived from the old set (the recent-signer window of the final prune is that of the set now active)", 1)
	staleFieldReads(c, "C09/no-stale-validator-set", "x/xibc/clients/light-clients/bsc/types.update")
	c.Rule("C09/window-and-pending-set-exported-whole", "the BSC client's metadata export (recent-signer window, pending validators) collects every entry: its collecting callback never returns the value that ends the traversal", 2)
	collectorsNeverStop(c, "C09/window-and-pending-set-exported-whole", []*ssa.Function{c.F("x/xibc/clients/light-clients/bsc/types.ClientState.ExportMetadata")})
	c.Rule("C09/turn-order-is-the-ascending-address-order", "wherever the validator set (a map) is turned into the list the in-turn rule indexes, every key is collected and the list is sorted on every path before it is used, by validatorsAscending whose Less is the byte-wise `<` of the two addresses", 2)
	{
		nloops := 0
		for _, fn := range fnsInPackages(c, "/light-clients/bsc/types") {
			for _, b := range fn.Blocks {
				for _, ins := range b.Instrs {
					rng, ok := ins.(*ssa.Range)
					if !ok || c.P.IsClone(rng) || !strings.HasSuffix(c.P.Ex(fn).E(rng.X).String(), ".Validators") {
						continue
					}
					appends := false
					for lb := range loopBlocks(fn, rng) {
						for _, li := range lb.Instrs {
							if call, ok := li.(*ssa.Call); ok {
								if bi, ok := call.Call.Value.(*ssa.Builtin); ok && bi.Name() == "append" {
									appends = true
								}
							}
						}
					}
					if !appends {
						continue
					}
					nloops++
					ok2, why := mapRangeOrderInsensitive(c, fn, rng)
					sortedBy := false
					for _, cs := range c.P.CallsIn(fn) {
						if cs.Name == "sort.Sort" {
							if mi, ok := cs.Ins.Common().Args[0].(*ssa.MakeInterface); ok && strings.HasSuffix(typeStr(mi.X.Type()), "bsc/types.validatorsAscending") {
								sortedBy = true
							}
						}
					}
					c.Req(ok2 && sortedBy, "C09/turn-order-is-the-ascending-address-order", funcName(fn)+"/validator list", rng.Pos(), "collected completely and sorted with validatorsAscending",
						"the list built from the validator map in "+funcName(fn)+" is not completely collected and then sorted with validatorsAscending on every path ("+why+"): the in-turn validator would depend on map order or on another order")
				}
			}
		}
		c.Req(nloops > 0, "C09/turn-order-is-the-ascending-address-order", "list built from the validator map", token.NoPos, fmt.Sprint(nloops, " site(s)"), "no loop collecting the validator map into a list found (anchor drifted)")
		c.Spec("C09/turn-order-is-the-ascending-address-order", Macros{}, FnSpec{Fn: "x/xibc/clients/light-clients/bsc/types.validatorsAscending.Less",
			Returns: []Ret{{Label: "byte-wise less", Index: 0, Want: []string{"($0[$1] <c $0[$2])"}}}})
	}
	c.Rule("C09/pending-set-is-the-epoch-headers", "frozen table (shared with C18): a client created or upgraded on an epoch header records as pending validator set the list that header carries (not the configured one), so the first switch goes to the announced set", 4)
	c.FrozenFiltered("C18", "C09/pending-set-is-the-epoch-headers", func(fn string) bool {
		return strings.Contains(fn, "light-clients/bsc/types") && (strings.HasSuffix(fn, "ClientState.Initialize") || strings.HasSuffix(fn, "ClientState.UpgradeState"))
	})
	c.Rule("C09/nothing-before-validity", "BSC CheckHeaderAndUpdateState changes state only after checkValidity accepted the header", 1)
	nothingBeforeValidity(c, "C09/nothing-before-validity", "x/xibc/clients/light-clients/bsc/types.ClientState.CheckHeaderAndUpdateState")
	neverBefore(c, "C09/pending-set-recorded-before-switch", c.F("x/xibc/clients/light-clients/bsc/types.update"), "bsc/types.GetPendingValidators", "bsc/types.SetPendingValidators",
		"the pending list is never read before it is recorded", "the pending validator list is read (switch block) on a path that records the epoch header's list only afterwards: for a validator set of size one the stale list becomes active and the announced one is never applied")
}
