package main

import (
	"fmt"
	"strings"

	"golang.org/x/tools/go/ssa"
)

// macros shared by the packet-keeper rules (C01–C06)
var pktM = Macros{
	"PKT":  "cell<packet/types.(*Packet).ABIDecode(_, $2.Packet)>",
	"SRC":  "{PKT}.SrcChain",
	"DST":  "{PKT}.DstChain",
	"SEQ":  "{PKT}.Sequence",
	"GETR": "packet/keeper.(Keeper).GetPacketReceipt($0, $1, {SRC}, {DST}, {SEQ})",
	"HASR": "packet/keeper.(Keeper).HasPacketReceipt($0, $1, {SRC}, {DST}, {SEQ})",
	"CS":   "iface:packet/types.ClientKeeper.GetClientState($0.clientKeeper, $1, {SRC})",
	"CMT":  "packet/types.CommitPacket({PKT})",
	"VPC":  "iface:xibc/exported.ClientState.VerifyPacketCommitment({CS}#0, $1, iface:packet/types.ClientKeeper.ClientStore($0.clientKeeper, $1, {SRC}), $0.cdc, $2.ProofHeight, phi{$2.ProofCommitment | $2.Signer}, {SRC}, {DST}, {SEQ}, {CMT}#0)",
	// msg server
	"KRECV": "packet/keeper.(Keeper).RecvPacket($0.PacketKeeper, {CTX}, $2)",
	"CTX":   "cosmos-sdk/types.UnwrapSDKContext($1)",
}

const (
	pkKeeper = "x/xibc/core/packet/keeper."
	xibcK    = "x/xibc/keeper."
)

// receiptFamilyWriters is shared with C13/C19.
func writesWithPrefix(c *Check, prefix string) []*StoreWrite {
	var out []*StoreWrite
	for _, w := range c.P.StoreWrites() {
		if strings.HasPrefix(w.Full(c.P), prefix) {
			out = append(out, w)
		}
	}
	return out
}

// opaqueRootWrites: writes into a module root store whose key has no literal prefix (could hit any family).
func opaqueRootWrites(c *Check) []*StoreWrite {
	var out []*StoreWrite
	for _, w := range c.P.StoreWrites() {
		f := w.Full(c.P)
		if strings.HasPrefix(f, "⟨v:") || strings.HasPrefix(f, "⟨alt:") || strings.HasPrefix(f, "⟨slice:") {
			out = append(out, w)
		}
	}
	return out
}

func init() { register("C01", c01) }

func c01(c *Check) {
	c.Declined = []string{
		"that a failing message reverts the receipt (BaseApp cache context, trusted)",
		"behaviour over relay histories (only the per-path structure of the single receive path is decided)",
		"application effects inside the packet/endpoint contracts (byte code only)",
	}
	c.Trusted = []string{"cosmos-sdk BaseApp runMsgs atomicity", "KVStore semantics", "go/ssa construction"}
	c.Assume = []string{"a receive can only enter through MsgRecvPacket → xibc/keeper.Keeper.RecvPacket (who-may-call rule checks the in-repo callers)"}
	m := pktM
	recv := c.F(pkKeeper + "Keeper.RecvPacket")
	fa := c.P.FA(recv)

	c.Rule("C01/check-before-write", "packet keeper RecvPacket: SetPacketReceipt is dominated by the not-found edge of a receipt lookup whose found edge rejects", 3)
	sets := c.NCalls(recv, "C01/check-before-write", "keeper.(Keeper).SetPacketReceipt", 1)
	// the lookup: Get (second result) or Has
	lookups := append(c.Calls(recv, "keeper.(Keeper).GetPacketReceipt"), c.Calls(recv, "keeper.(Keeper).HasPacketReceipt")...)
	c.Req(len(lookups) >= 1, "C01/check-before-write", funcName(recv)+"/receipt-lookup", recv.Pos(), fmt.Sprintf("%d lookup(s)", len(lookups)), "no GetPacketReceipt/HasPacketReceipt lookup in RecvPacket")
	var foundExpr string
	for _, l := range lookups {
		e := fa.X.E(l.Ins.(*ssa.Call)).String()
		if strings.Contains(l.Name, "GetPacketReceipt") {
			e += "#1"
		}
		if _, ok := fa.GuardSet()["reject "+e]; ok {
			foundExpr = e
		}
	}
	c.Req(foundExpr != "", "C01/check-before-write", funcName(recv)+"/found-edge-rejects", recv.Pos(), m.Fold(foundExpr), "no receipt lookup whose 'found' edge is rejecting")
	for _, s := range sets {
		if foundExpr != "" {
			c.Under(recv, "C01/check-before-write", "SetPacketReceipt", m, s.Ins, "!"+foundExpr)
		}
	}

	c.Rule("C01/same-triple", "the triple looked up, the triple written and the triple verified are (GetSrcChain, GetDstChain, GetSequence) of the one packet decoded from msg.Packet", 6)
	for _, s := range sets {
		c.ArgIs(s, "C01/same-triple", "SetPacketReceipt.src", m, 2, "{SRC}")
		c.ArgIs(s, "C01/same-triple", "SetPacketReceipt.dst", m, 3, "{DST}")
		c.ArgIs(s, "C01/same-triple", "SetPacketReceipt.seq", m, 4, "{SEQ}")
	}
	for _, l := range lookups {
		c.ArgIs(l, "C01/same-triple", "lookup.src", m, 2, "{SRC}")
		c.ArgIs(l, "C01/same-triple", "lookup.dst", m, 3, "{DST}")
		c.ArgIs(l, "C01/same-triple", "lookup.seq", m, 4, "{SEQ}")
	}

	c.Rule("C01/no-failure-reported-as-success", "on the failure edge of one error no function returns another error value that is provably nil at that point (a wrapped stale `err` instead of the error just tested): a failed step is never reported as success", 1)
	noFailureAsSuccess(c, "C01/no-failure-reported-as-success", fnsInPackages(c, "/x/xibc/keeper", "/x/xibc/core/packet/keeper"))
	c.Rule("C01/receipts-and-acks-survive-genesis", "the receipts and acknowledgements families are read whole by their exporters (reachable from ExportGenesis, over the family's own prefix) and written back by their importer: a restart does not forget that a packet was delivered", 2)
	{
		er, ir := genesisReach(c)
		familiesRoundTrip(c, "C01/receipts-and-acks-survive-genesis", "C01/receipts-and-acks-survive-genesis", er, ir, func(f string) bool {
			return strings.HasPrefix(f, "receipts/") || strings.HasPrefix(f, "acks/")
		})
	}
	c.Rule("C01/replay-guards-read-the-store", "the packet keeper holds only wiring (store key, codec, other keepers): the receipt and acknowledgement lookups answer from the committed store, not from memory of this process, which is empty after a restart", 3)
	keeperFieldsRule(c, "C01/replay-guards-read-the-store", func(p string) bool { return strings.HasSuffix(p, "/x/xibc/core/packet/keeper") })
	c.Rule("C01/key-shape", "host.PacketReceiptKey is receipts/<src>/<dst>/sequences/<seq %d> (all three parameters, in order) and Get/Has/Set address it with their own (src,dst,seq) parameters", 4)
	key := c.F("x/xibc/core/host.PacketReceiptKey")
	sh := c.P.ShapeOfFunc(key)
	c.Req(sh == "receipts/⟨s:$0⟩/⟨s:$1⟩/sequences/⟨d:$2⟩", "C01/key-shape", "host.PacketReceiptKey", key.Pos(), sh, "receipt key shape is "+sh+", required receipts/⟨s:$0⟩/⟨s:$1⟩/sequences/⟨d:$2⟩")
	for _, name := range []string{"GetPacketReceipt", "HasPacketReceipt", "SetPacketReceipt"} {
		fn := c.F(pkKeeper + "Keeper." + name)
		ok := false
		got := ""
		for _, cs := range c.P.CallsIn(fn) {
			if strings.HasPrefix(cs.Name, "iface:cosmos-sdk/types.KVStore.") {
				args := c.P.ArgExprs(cs)
				if len(args) >= 2 {
					got = c.P.ShapeExpr(args[1])
					if got == "receipts/⟨s:$2⟩/⟨s:$3⟩/sequences/⟨d:$4⟩" && args[0].String() == "cosmos-sdk/types.(Context).KVStore($1, $0.storeKey)" {
						ok = true
					}
				}
			}
		}
		c.Req(ok, "C01/key-shape", funcName(fn), fn.Pos(), got, name+" does not address receipts/<$2>/<$3>/sequences/<$4> in the module store; key shape seen: "+got)
	}

	c.Rule("C01/who-writes-receipts", "the receipts family is written only by SetPacketReceipt, never deleted; SetPacketReceipt is called only from RecvPacket and InitGenesis; key-opaque writes to a root store are confined to the audited set", 5)
	for _, w := range writesWithPrefix(c, "receipts") {
		ok := w.Op == "Set" && strings.HasSuffix(funcName(w.Fn), "keeper.(Keeper).SetPacketReceipt")
		c.Req(ok, "C01/who-writes-receipts", "receipts/"+w.Op+" in "+funcName(w.Fn), w.Pos, "sole writer", fmt.Sprintf("%s on the receipts family in %s", w.Op, funcName(w.Fn)))
	}
	c.WhoMayCall("C01/who-writes-receipts", c.F(pkKeeper+"Keeper.SetPacketReceipt"), "packet/keeper.(Keeper).RecvPacket", "core/packet.InitGenesis")
	auditOpaque(c, "C01/who-writes-receipts")

	c.Rule("C01/receipt-on-every-accept", "every success path of the packet keeper's RecvPacket writes the receipt exactly once (whatever the client type); the receipts exported in genesis are read from, and re-imported into, the receipts family with (src,dst,seq) in order", 4)
	{
		paths := c.PathCounts(recv, func(cs *CallSite) bool { return strings.HasSuffix(cs.Name, "keeper.(Keeper).SetPacketReceipt") })
		ok := len(paths) > 0
		for _, p := range paths {
			if p.Count != 1 {
				ok = false
			}
		}
		c.Req(ok, "C01/receipt-on-every-accept", funcName(recv)+"/exactly-one SetPacketReceipt per success path", recv.Pos(), fmt.Sprint(len(paths), " success path(s)"), "a success path of RecvPacket accepts the packet without writing its receipt (a later receive of the same triple would be accepted again)")
		packetGenesisBinding(c, "C01/receipt-on-every-accept", "Receipts", "Acknowledgements")
	}

	c.Rule("C01/effects-after-accept", "msg server RecvPacket: the onRecvPacket callback and every WriteAcknowledgement are dominated by the err==nil edge of PacketKeeper.RecvPacket(ctx,msg); onRecvPacket is invoked from nowhere else", 4)
	ms := c.F(xibcK + "Keeper.RecvPacket")
	okEdge := errNil("{KRECV}")
	c.HasGuard(ms, "C01/effects-after-accept", "packet-keeper-recv-error-rejects", m, "reject ({KRECV} != nil)")
	for i, cs := range c.Calls(ms, "keeper.(Keeper).CallPacket") {
		c.Under(ms, "C01/effects-after-accept", fmt.Sprintf("CallPacket#%d", i), m, cs.Ins, okEdge)
	}
	for i, cs := range c.Calls(ms, "keeper.(Keeper).WriteAcknowledgement") {
		c.Under(ms, "C01/effects-after-accept", fmt.Sprintf("WriteAcknowledgement#%d", i), m, cs.Ins, okEdge)
	}
	c.SuccessUnder(ms, "C01/effects-after-accept", m, okEdge)
	callPacketMethodOwners(c, "C01/effects-after-accept", "onRecvPacket", "xibc/keeper.(Keeper).RecvPacket")
}

// auditOpaque: key-opaque writes (no literal prefix) into a root store are confined to audited functions.
func auditOpaque(c *Check, rule string) {
	allowed := map[string]string{
		"x/xibc.ResetStates": "upgrade-time wipe of the whole xibc store; callable only from the app upgrade handler (checked below)",
	}
	for _, w := range opaqueRootWrites(c) {
		n := funcName(w.Fn)
		_, ok := allowed[n]
		c.Req(ok, rule, "opaque-root-write in "+n, w.Pos, allowed[n], fmt.Sprintf("%s with a key of unknown family (%s) in %s", w.Op, w.Full(c.P), n))
	}
	c.WhoMayCall(rule, c.F("x/xibc.ResetStates"), "app.(*Teleport).registerUpgradeHandlers")
}

// callPacketMethodOwners: CallPacket sites whose constant method name is `method` are only in `owner`.
func callPacketMethodOwners(c *Check, rule, method string, owners ...string) {
	target := c.F(pkKeeper + "Keeper.CallPacket")
	n := 0
	for fn := range c.P.AllFuncs {
		if !inScope(fn) || len(fn.Blocks) == 0 {
			continue
		}
		for _, cs := range c.P.CallsInOwn(fn) {
			if f := c.P.resolveCallee(cs.Ins.Common()); f != target {
				continue
			}
			args := c.P.ArgExprs(cs)
			mexpr := args[2]
			if mexpr.Op != "const" {
				c.Bad(rule, "CallPacket method in "+funcName(fn), cs.Ins.Pos(), "CallPacket with a computed (non-constant) method name: "+mexpr.String())
				continue
			}
			if mexpr.Name != fmt.Sprintf("%q", method) {
				continue
			}
			n++
			ok := true
			for _, at := range c.P.Owners(fn) {
				one := false
				for _, o := range owners {
					if strings.HasSuffix(at, o) {
						one = true
					}
				}
				ok = ok && one
			}
			c.Req(ok, rule, "CallPacket("+method+") in "+funcName(rootFn(fn)), cs.Ins.Pos(), "owner", fmt.Sprintf("privileged packet-contract method %q is invoked from %s (allowed: %v)", method, funcName(fn), owners))
		}
	}
	c.Req(n >= 1, rule, "CallPacket("+method+") present", target.Pos(), fmt.Sprint(n, " site(s)"), "no CallPacket site with method "+method+" found")
}
