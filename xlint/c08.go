package main

import (
	"fmt"
	"sort"
	"strings"
)

func init() { register("C08", c08) }

func c08(c *Check) {
	c.Declined = []string{
		"accept-*iff*-valid (completeness) and the behaviour of go-ethereum's trie.VerifyProof on truncated / padded / absent-key proofs (third-party, trusted)",
		"leading-zero handling beyond the structural left-pad-to-32 before comparison",
		"that the stored consensus root at the proof height is itself authentic (C09 / C10)",
	}
	c.Trusted = []string{"go-ethereum trie.VerifyProof, rlp, crypto.Keccak256", "go/ssa"}
	c.Assume = []string{"guards and bindings were selected by source position at freeze time (xlint/picks/C08.txt) and are compared in canonical form"}
	c.Rule("C08/guards", "frozen table, for ETH and for BSC: proof height <= head; consensus state fetched at the proof height; confirmation blocks elapsed; proof address = configured contract; account proof verified under the stored state root at keccak(address); RLP(nonce,balance,storageHash,codeHash) equals the proven account; exactly one storage proof; its key equals the slot derived from this call's own (src,dst,seq) — commitment key for commitments, ack key for acks; storage proof verified under that same storageHash at keccak(key); decoded value left-padded to 32 bytes equals the expected hash; every success return is dominated by all of them", 60)
	n := c.Frozen("C08")
	c.Extra["frozen_entries"] = n

	c.Rule("C08/slot-path-shape", "the paths the storage slot is derived from are <family>/<src>/<dst>/sequences/<seq as unsigned decimal>: every parameter, in order, the sequence through no number-changing conversion", 2)
	for fam, name := range map[string]string{"commitments": "PacketCommitmentPath", "acks": "PacketAcknowledgementPath"} {
		fn := c.F("x/xibc/core/host." + name)
		sh := c.P.ShapeOfFunc(fn)
		want := fam + "/⟨s:$0⟩/⟨s:$1⟩/sequences/⟨d:$2⟩"
		c.Req(sh == want, "C08/slot-path-shape", "host."+name, fn.Pos(), sh, "path shape is "+sh+", required "+want)
	}

	c.Rule("C08/no-swallowed-panic", "no function of the two EVM light clients defers a recover() that lets it return normally after a panic: a verifier that panics on a malformed proof must not turn that into a nil error", 1)
	noSwallowedPanic(c, "C08/no-swallowed-panic", fnsInPackages(c, "/light-clients/eth/types", "/light-clients/bsc/types"))
	c.Rule("C08/sibling-agreement", "the ETH and BSC copies of the proof verifier have identical canonical guard sets (a check dropped or loosened in one copy only is a contradiction)", 5)
	for _, f := range []string{"produceVerificationArgs", "ClientState.VerifyPacketCommitment", "ClientState.VerifyPacketAcknowledgement", "verifyMerkleProof", "checkProofResult"} {
		ge := guardStrings(c, ethT+f, "eth/types")
		gb := guardStrings(c, bscT+f, "bsc/types")
		var onlyE, onlyB []string
		for g := range ge {
			if !gb[g] {
				onlyE = append(onlyE, g)
			}
		}
		for g := range gb {
			if !ge[g] {
				onlyB = append(onlyB, g)
			}
		}
		sort.Strings(onlyE)
		sort.Strings(onlyB)
		c.Req(len(onlyE) == 0 && len(onlyB) == 0, "C08/sibling-agreement", f, c.F(ethT+f).Pos(), fmt.Sprintf("%d guards agree", len(ge)),
			fmt.Sprintf("guard sets differ — only in ETH: %v; only in BSC: %v", truncAll(onlyE), truncAll(onlyB)))
	}
}

func guardStrings(c *Check, spec, pkg string) map[string]bool {
	out := map[string]bool{}
	for s := range c.P.FA(c.F(spec)).GuardSet() {
		out[strings.ReplaceAll(s, pkg+".", "X.")] = true
	}
	return out
}

func truncAll(ss []string) []string {
	out := make([]string, len(ss))
	for i, s := range ss {
		out[i] = trunc(s)
	}
	return out
}
