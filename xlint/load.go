package main

import (
	"fmt"
	"go/constant"
	"go/token"
	"go/types"
	"os"
	"sort"
	"strings"

	"golang.org/x/tools/go/callgraph"
	"golang.org/x/tools/go/callgraph/cha"
	"golang.org/x/tools/go/callgraph/vta"
	"golang.org/x/tools/go/packages"
	"golang.org/x/tools/go/ssa"
	"golang.org/x/tools/go/ssa/ssautil"
)

const modPath = "github.com/teleport-network/teleport"

// Program is the loaded, type-checked, SSA-built view of /repo's working tree.
type Program struct {
	Dir      string
	Fset     *token.FileSet
	Pkgs     []*packages.Package // teleport packages (module-local)
	AllPkgs  map[string]*packages.Package
	SSA      *ssa.Program
	SSAPkgs  map[string]*ssa.Package
	AllFuncs map[*ssa.Function]bool
	cgCHA    *callgraph.Graph
	cgVTA    *callgraph.Graph
	NFuncs   int // teleport functions with bodies
	NBlocks  int
	// per-program analysis caches
	exprers          map[*ssa.Function]*Exprer
	fas              map[*ssa.Function]*FA
	storeWritesCache []*StoreWrite
	storeReadsCache  []*StoreRead
	inl              *inliner
	trivial          map[*ssa.Function]bool
	nilGetter        map[*ssa.Function]string
}

// loadFailPanics: when set (seed loading), a load failure panics instead of exiting so that the caller can skip the seed.
var loadFailPanics bool

func checkerFail(format string, args ...interface{}) {
	if loadFailPanics {
		panic(fmt.Sprintf(format, args...))
	}
	fmt.Fprintf(os.Stderr, "CHECKER-FAILURE: "+format+"\n", args...)
	fmt.Printf("CHECKER-FAILURE: "+format+"\n", args...)
	os.Exit(2)
}

func loadProgram(dir string, extraEnv []string, overlay map[string][]byte) *Program {
	env := []string{}
	for _, e := range os.Environ() {
		if strings.HasPrefix(e, "GOWORK=") || strings.HasPrefix(e, "GOFLAGS=") {
			continue
		}
		env = append(env, e)
	}
	env = append(env, "GOFLAGS=-mod=mod", "GOPROXY=off", "GOSUMDB=off", "GOTOOLCHAIN=local", "GOWORK=off")
	env = append(env, extraEnv...)
	cfg := &packages.Config{
		Mode:    packages.LoadAllSyntax,
		Dir:     dir,
		Env:     env,
		Tests:   false,
		Overlay: overlay,
	}
	pkgs, err := packages.Load(cfg, "./...")
	if err != nil {
		checkerFail("packages.Load: %v", err)
	}
	if len(pkgs) == 0 {
		checkerFail("no packages loaded from %s", dir)
	}
	p := &Program{Dir: dir, AllPkgs: map[string]*packages.Package{}, SSAPkgs: map[string]*ssa.Package{},
		exprers: map[*ssa.Function]*Exprer{}, fas: map[*ssa.Function]*FA{}, trivial: map[*ssa.Function]bool{}, nilGetter: map[*ssa.Function]string{}}
	nerr := 0
	packages.Visit(pkgs, nil, func(pk *packages.Package) {
		p.AllPkgs[pk.PkgPath] = pk
		if strings.HasPrefix(pk.PkgPath, modPath) {
			for _, e := range pk.Errors {
				fmt.Fprintf(os.Stderr, "load error: %s: %v\n", pk.PkgPath, e)
				nerr++
			}
		}
	})
	if nerr > 0 {
		checkerFail("%d type/load errors in teleport packages (tree does not compile)", nerr)
	}
	for _, pk := range pkgs {
		if strings.HasPrefix(pk.PkgPath, modPath) {
			p.Pkgs = append(p.Pkgs, pk)
		}
	}
	sort.Slice(p.Pkgs, func(i, j int) bool { return p.Pkgs[i].PkgPath < p.Pkgs[j].PkgPath })
	if len(p.Pkgs) < 40 {
		checkerFail("only %d teleport packages loaded (expected >= 40)", len(p.Pkgs))
	}
	p.Fset = pkgs[0].Fset
	prog, _ := ssautil.AllPackages(pkgs, ssa.InstantiateGenerics)
	prog.Build()
	p.SSA = prog
	for _, sp := range prog.AllPackages() {
		p.SSAPkgs[sp.Pkg.Path()] = sp
	}
	p.AllFuncs = ssautil.AllFunctions(prog)
	// call graphs are built from the program as written; the normal form below only changes function bodies
	p.cgCHA = cha.CallGraph(p.SSA)
	p.cgVTA = vta.CallGraph(p.AllFuncs, p.cgCHA)
	theProgram = p
	domCache = map[*ssa.Function]*domInfo{} // (keyed by function: entries of an earlier load would keep its whole program alive)
	p.normalise()
	for fn := range p.AllFuncs {
		if fn.Pkg != nil && strings.HasPrefix(fn.Pkg.Pkg.Path(), modPath) && len(fn.Blocks) > 0 {
			p.NFuncs++
			p.NBlocks += len(fn.Blocks)
			if os.Getenv("XLINT_DUMP_CONV") != "" && !isGeneratedFn(p, fn) {
				for _, b := range fn.Blocks {
					for _, ins := range b.Instrs {
						if cv, ok := ins.(*ssa.Convert); ok && !p.IsClone(cv) {
							if tag := lossyConv(cv); tag != "" {
								fmt.Fprintf(os.Stderr, "CONV %s %s %s\n", tag, funcName(fn), p.Fset.Position(cv.Pos()))
							}
						}
					}
				}
			}
		}
	}
	return p
}

// CallGraph builds (once) the call graph: "cha" or "vta".
func (p *Program) CallGraph(kind string) *callgraph.Graph {
	if kind == "vta" {
		return p.cgVTA
	}
	return p.cgCHA
}

// short abbreviates an import path to its last two elements (stable and readable).
func short(path string) string {
	parts := strings.Split(path, "/")
	if len(parts) > 2 {
		parts = parts[len(parts)-2:]
	}
	return strings.Join(parts, "/")
}

// Pkg returns the ssa package for a module-relative path like "x/xibc/keeper".
func (p *Program) Pkg(rel string) *ssa.Package {
	full := rel
	if !strings.Contains(rel, ".") || strings.HasPrefix(rel, "x/") {
		full = modPath + "/" + rel
	}
	sp := p.SSAPkgs[full]
	if sp == nil {
		checkerFail("anchor unresolved: package %s", full)
	}
	return sp
}

// Func resolves "rel/pkg.Func" or "rel/pkg.Type.Method" (value or pointer receiver).
func (p *Program) Func(spec string) *ssa.Function {
	fn := p.FuncOpt(spec)
	if fn == nil {
		checkerFail("anchor unresolved: function %s", spec)
	}
	return fn
}

func (p *Program) FuncOpt(spec string) *ssa.Function {
	i := strings.LastIndex(spec, "/")
	rest := spec
	pkgRel := ""
	if i >= 0 {
		j := strings.Index(spec[i:], ".")
		if j < 0 {
			checkerFail("bad func spec %s", spec)
		}
		pkgRel = spec[:i+j]
		rest = spec[i+j+1:]
	} else {
		j := strings.Index(spec, ".")
		pkgRel = spec[:j]
		rest = spec[j+1:]
	}
	sp := p.Pkg(pkgRel)
	parts := strings.Split(rest, ".")
	if len(parts) == 1 {
		if f := sp.Func(parts[0]); f != nil {
			return f
		}
		return nil
	}
	tn := sp.Type(parts[0])
	if tn == nil {
		return nil
	}
	T := tn.Type()
	for _, recv := range []types.Type{T, types.NewPointer(T)} {
		ms := p.SSA.MethodSets.MethodSet(recv)
		for k := 0; k < ms.Len(); k++ {
			sel := ms.At(k)
			if sel.Obj().Name() == parts[1] {
				f := p.SSA.MethodValue(sel)
				if f != nil && f.Synthetic != "" && strings.HasPrefix(f.Synthetic, "wrapper") {
					// find the declared method
					if fo, ok := sel.Obj().(*types.Func); ok {
						if d := p.SSA.FuncValue(fo); d != nil {
							return d
						}
					}
				}
				return f
			}
		}
	}
	return nil
}

func (p *Program) Pos(pos token.Pos) string {
	if !pos.IsValid() {
		return "-"
	}
	ps := p.Fset.Position(pos)
	return fmt.Sprintf("%s:%d:%d", strings.TrimPrefix(ps.Filename, p.Dir+"/"), ps.Line, ps.Column)
}

// funcName gives a stable qualified name: rel/pkg.(T).M or rel/pkg.F
func funcName(fn *ssa.Function) string {
	if fn == nil {
		return "<nil>"
	}
	if fn.Signature != nil && fn.Signature.Recv() != nil {
		rt := fn.Signature.Recv().Type()
		ptr := ""
		if pt, ok := rt.(*types.Pointer); ok {
			rt = pt.Elem()
			ptr = "*"
		}
		if nt, ok := rt.(*types.Named); ok {
			pk := ""
			if nt.Obj().Pkg() != nil {
				pk = short(nt.Obj().Pkg().Path())
			}
			return fmt.Sprintf("%s.(%s%s).%s", pk, ptr, nt.Obj().Name(), fn.Name())
		}
	}
	if fn.Pkg != nil {
		return short(fn.Pkg.Pkg.Path()) + "." + fn.Name()
	}
	if fn.Parent() != nil {
		return funcName(fn.Parent()) + "$" + fn.Name()
	}
	return fn.String()
}

func inTeleport(fn *ssa.Function) bool {
	if fn == nil {
		return false
	}
	if fn.Pkg != nil {
		return strings.HasPrefix(fn.Pkg.Pkg.Path(), modPath)
	}
	if fn.Parent() != nil {
		return inTeleport(fn.Parent())
	}
	if fn.Origin() != nil {
		return inTeleport(fn.Origin())
	}
	// method wrappers etc: use receiver type's package
	if fn.Signature != nil && fn.Signature.Recv() != nil {
		rt := fn.Signature.Recv().Type()
		if pt, ok := rt.(*types.Pointer); ok {
			rt = pt.Elem()
		}
		if nt, ok := rt.(*types.Named); ok && nt.Obj().Pkg() != nil {
			return strings.HasPrefix(nt.Obj().Pkg().Path(), modPath)
		}
	}
	return false
}

// Const returns the string value of a package-level string constant given as "<package path suffix>.<name>".
func (p *Program) Const(spec string) (string, bool) {
	i := strings.LastIndex(spec, ".")
	if i < 0 {
		return "", false
	}
	pkg, name := spec[:i], spec[i+1:]
	for _, sp := range p.SSA.AllPackages() {
		if sp.Pkg.Path() != modPath+"/"+pkg {
			continue
		}
		if nc, ok := sp.Members[name].(*ssa.NamedConst); ok && nc.Value != nil && nc.Value.Value != nil && nc.Value.Value.Kind() == constant.String {
			return constant.StringVal(nc.Value.Value), true
		}
	}
	return "", false
}
