package main

import (
	"bufio"
	"embed"
	"encoding/json"
	"fmt"
	"go/token"
	"os"
	"sort"
	"strconv"
	"strings"

	"golang.org/x/tools/go/ssa"
)

// Frozen tables: obligations picked by source position at freeze time (picks/*.txt, human-auditable),
// stored in canonical form (tables/*.json). At check time only the canonical forms are used.

//go:embed tables/*.json
var tablesFS embed.FS

type frozenTable struct {
	Property string    `json:"property"`
	Specs    []FnSpecJ `json:"specs"`
}

type FnSpecJ struct {
	Fn      string   `json:"fn"`
	Rule    string   `json:"rule"`
	Guards  []G      `json:"guards,omitempty"`
	Effects []EffJ   `json:"effects,omitempty"`
	Success []string `json:"success,omitempty"`
	Returns []Ret    `json:"returns,omitempty"`
	Stores  []St     `json:"stores,omitempty"`
	RetAts  []RetAt  `json:"retats,omitempty"`
}

type EffJ struct {
	Label  string            `json:"label"`
	Callee string            `json:"callee"`
	N      int               `json:"n"`
	Args   map[string]string `json:"args,omitempty"`
	Under  []string          `json:"under,omitempty"`
	Err    bool              `json:"err,omitempty"`
	Filter string            `json:"filter,omitempty"`
}

func loadFrozen(prop string) []FnSpecJ {
	b, err := tablesFS.ReadFile("tables/" + prop + ".json")
	if err != nil {
		checkerFail("frozen table for %s missing: %v", prop, err)
	}
	var t frozenTable
	if err := json.Unmarshal(b, &t); err != nil {
		checkerFail("frozen table %s: %v", prop, err)
	}
	return t.Specs
}

// Frozen evaluates every frozen spec of the property.
func (c *Check) Frozen(prop string) int { return c.FrozenFiltered(prop, "", nil) }

// FrozenFiltered evaluates the frozen specs of `prop` whose function passes keep, under rule (""= the frozen rule).
func (c *Check) FrozenFiltered(prop, rule string, keep func(fn string) bool) int {
	n := 0
	for _, s := range loadFrozen(prop) {
		if keep != nil && !keep(s.Fn) {
			continue
		}
		if rule != "" {
			s.Rule = rule
		}
		fs := FnSpec{Fn: s.Fn, Guards: s.Guards, Success: s.Success, Returns: s.Returns, Stores: s.Stores, RetAts: s.RetAts}
		for _, e := range s.Effects {
			args := map[int]string{}
			for k, v := range e.Args {
				i, _ := strconv.Atoi(k)
				args[i] = v
			}
			fs.Effects = append(fs.Effects, Eff{Label: e.Label, Callee: e.Callee, N: e.N, Args: args, Under: e.Under, Err: e.Err, Filter: e.Filter})
		}
		c.Spec(s.Rule, Macros{}, fs)
		n += len(s.Guards) + len(s.Effects)
	}
	return n
}

// freeze reads a picks file and prints the frozen JSON table.
//
//	prop C07
//	rule C07/guards  <text…>          (declares the rule used by following fn blocks; text only for documentation)
//	fn x/…/types.checkValidity
//	g  <line> <label>                 guard whose branch condition is on that source line
//	gs <substring> | <label>          guard whose canonical text contains the substring (unique)
//	e  <line> <calleeFragment> <label> [args=all|0,2] [err] [nounder]
//	s                                 success returns dominated by all picked guards that dominate them today
//	ret <idx> <label>                 freeze result idx of the non-rejecting returns
//	st <line> <label>                 freeze the store on that line
func freeze(p *Program, path string) {
	f, err := os.Open(path)
	if err != nil {
		checkerFail("%v", err)
	}
	defer f.Close()
	var tab frozenTable
	var cur *FnSpecJ
	var curFn *ssa.Function
	var picked []*Guard
	rule := ""
	flush := func() {
		if cur != nil {
			tab.Specs = append(tab.Specs, *cur)
		}
		cur, curFn, picked = nil, nil, nil
	}
	sc := bufio.NewScanner(f)
	ln := 0
	lastWasRetu := false
	fail := func(format string, a ...interface{}) {
		checkerFail("%s:%d: %s", path, ln, fmt.Sprintf(format, a...))
	}
	for sc.Scan() {
		ln++
		line := strings.TrimSpace(sc.Text())
		if line == "" || strings.HasPrefix(line, "#") {
			continue
		}
		fields := strings.Fields(line)
		if fields[0] != "or" {
			lastWasRetu = fields[0] == "retu"
		}
		switch fields[0] {
		case "prop":
			tab.Property = fields[1]
		case "rule":
			rule = fields[1]
		case "fn":
			flush()
			curFn = p.Func(fields[1])
			cur = &FnSpecJ{Fn: fields[1], Rule: rule}
		case "g":
			want, _ := strconv.Atoi(fields[1])
			label := strings.Join(fields[2:], " ")
			a := p.FA(curFn)
			var hits []*Guard
			for _, g := range a.OwnGuards() {
				pos := g.If.Cond.Pos()
				if !pos.IsValid() {
					pos = guardPos(g)
				}
				if p.Fset.Position(pos).Line == want {
					hits = append(hits, g)
				}
			}
			if len(hits) == 0 {
				fail("no guard on line %d of %s", want, funcName(curFn))
			}
			for i, g := range hits {
				l := label
				if len(hits) > 1 {
					l = fmt.Sprintf("%s#%d", label, i+1)
				}
				cur.Guards = append(cur.Guards, G{l, g.String()})
				picked = append(picked, g)
			}
		case "gs":
			rest := strings.TrimSpace(strings.TrimPrefix(line, "gs"))
			parts := strings.SplitN(rest, "|", 2)
			if len(parts) != 2 {
				fail("gs needs 'substring | label'")
			}
			sub, label := strings.TrimSpace(parts[0]), strings.TrimSpace(parts[1])
			a := p.FA(curFn)
			var hits []*Guard
			for _, g := range a.OwnGuards() {
				if strings.Contains(g.String(), sub) {
					hits = append(hits, g)
				}
			}
			if len(hits) != 1 {
				fail("substring %q matches %d guards of %s", sub, len(hits), funcName(curFn))
			}
			cur.Guards = append(cur.Guards, G{label, hits[0].String()})
			picked = append(picked, hits[0])
		case "e":
			want, _ := strconv.Atoi(fields[1])
			frag, label := fields[2], fields[3]
			argSel, errp, nounder, allunder := "", false, false, false
			for _, o := range fields[4:] {
				switch {
				case strings.HasPrefix(o, "args="):
					argSel = strings.TrimPrefix(o, "args=")
				case o == "err":
					errp = true
				case o == "nounder":
					nounder = true
				case o == "allunder":
					allunder = true
				}
			}
			a := p.FA(curFn)
			var sites []*CallSite
			for d := 0; d <= 4 && len(sites) == 0; d++ { // nearest line at or up to 4 lines before/after the given one
				for _, cs := range p.CallsIn(curFn) {
					l := p.Fset.Position(cs.Ins.Pos()).Line
					if (l == want-d || l == want+d) && strings.Contains(cs.Name, frag) {
						sites = append(sites, cs)
					}
				}
			}
			if len(sites) != 1 {
				fail("%d call sites of *%s* on line %d of %s", len(sites), frag, want, funcName(curFn))
			}
			cs := sites[0]
			ej := EffJ{Label: label, Callee: cs.Name, N: 1, Err: errp, Args: map[string]string{}}
			// how many sites of the same callee exist in the function? disambiguate with a filter on the call text
			same := 0
			for _, o := range p.CallsIn(curFn) {
				if o.Name == cs.Name {
					same++
				}
			}
			args := p.ArgExprs(cs)
			if same > 1 {
				ej.Filter = callString(p, cs)
			}
			if argSel == "all" {
				for i, e := range args {
					ej.Args[strconv.Itoa(i)] = e.String()
				}
			} else if argSel != "" {
				for _, k := range strings.Split(argSel, ",") {
					i, _ := strconv.Atoi(k)
					if i >= len(args) {
						fail("call has no argument %d", i)
					}
					ej.Args[k] = args[i].String()
				}
			}
			if allunder {
				for s := range a.PathCondStrings(cs.Ins.Block()) {
					ej.Under = append(ej.Under, s)
				}
				sort.Strings(ej.Under)
			} else if !nounder {
				conds := a.PathCondStrings(cs.Ins.Block())
				for _, g := range picked {
					n := negate(g.Cond).String()
					if conds[n] {
						ej.Under = append(ej.Under, n)
					}
				}
				sort.Strings(ej.Under)
			}
			cur.Effects = append(cur.Effects, ej)
		case "s":
			a := p.FA(curFn)
			rets := a.NonRejectReturns()
			for _, g := range picked {
				n := negate(g.Cond).String()
				all := len(rets) > 0
				for _, r := range rets {
					if !a.PathCondStrings(r.Block())[n] {
						all = false
					}
				}
				if all {
					cur.Success = append(cur.Success, n)
				}
			}
		case "ret":
			idx, _ := strconv.Atoi(fields[1])
			a := p.FA(curFn)
			set := map[string]bool{}
			for _, r := range a.NonRejectReturns() {
				if e := splitOrigin(r, idx); e != nil {
					// `return X` in normal form (if X != nil { return X }; return nil): the value of interest is X
					set[a.X.E(e).String()] = true
					continue
				}
				set[a.X.E(RetVal(r, idx)).String()] = true
			}
			var ws []string
			for s := range set {
				ws = append(ws, s)
			}
			sort.Strings(ws)
			cur.Returns = append(cur.Returns, Ret{Label: strings.Join(fields[2:], " "), Index: idx, Want: ws})
		case "st":
			want, _ := strconv.Atoi(fields[1])
			a := p.FA(curFn)
			found := false
			for _, b := range curFn.Blocks {
				for _, ins := range b.Instrs {
					if sto, ok := ins.(*ssa.Store); ok && p.Fset.Position(sto.Pos()).Line == want {
						if _, isAlloc := sto.Addr.(*ssa.Alloc); isAlloc {
							continue
						}
						var under []string
						for s := range a.PathCondStrings(sto.Block()) {
							under = append(under, s)
						}
						sort.Strings(under)
						cur.Stores = append(cur.Stores, St{Label: strings.Join(fields[2:], " "), Addr: a.X.E(sto.Addr).String(), Val: a.X.E(sto.Val).String(), Under: under})
						found = true
					}
				}
			}
			if !found {
				fail("no store on line %d", want)
			}
		case "retu": // retu <line> <idx> <label>: the return on that line yields this value under these conditions
			want, _ := strconv.Atoi(fields[1])
			idx, _ := strconv.Atoi(fields[2])
			a := p.FA(curFn)
			found := false
			for _, b := range curFn.Blocks {
				if len(b.Instrs) == 0 {
					continue
				}
				if r, ok := b.Instrs[len(b.Instrs)-1].(*ssa.Return); ok && p.Fset.Position(r.Pos()).Line == want {
					var under []string
					for s := range a.PathCondStrings(b) {
						under = append(under, s)
					}
					sort.Strings(under)
					cur.RetAts = append(cur.RetAts, RetAt{Label: strings.Join(fields[3:], " "), Index: idx, Want: a.X.E(RetVal(r, idx)).String(), Under: under})
					found = true
				}
			}
			if !found {
				fail("no return on line %d", want)
			}
		case "or": // or <canonical expression>: another accepted form of the value named by the preceding ret / retu line
			alt := strings.TrimSpace(strings.TrimPrefix(strings.TrimSpace(line), "or"))
			switch {
			case lastWasRetu && len(cur.RetAts) > 0:
				prev := cur.RetAts[len(cur.RetAts)-1]
				cur.RetAts = append(cur.RetAts, RetAt{Label: prev.Label, Index: prev.Index, Want: alt})
			case len(cur.Returns) > 0:
				r := &cur.Returns[len(cur.Returns)-1]
				r.Want = append(r.Want, alt)
			default:
				fail("`or` without a preceding ret / retu")
			}
		default:
			fail("unknown directive %q", fields[0])
		}
	}
	flush()
	b, _ := json.MarshalIndent(tab, "", " ")
	fmt.Println(string(b))
}

// guardPos: a usable source position for a guard whose condition value has none (e.g. a bare `found` result):
// the position of the instruction that defines the condition's operand, else the first positioned instruction of
// the rejecting successor.
func guardPos(g *Guard) token.Pos {
	var ops []*ssa.Value
	ops = g.If.Operands(ops)
	for _, o := range ops {
		if o != nil && *o != nil {
			if ex, ok := (*o).(*ssa.Extract); ok && ex.Tuple.Pos().IsValid() {
				return ex.Tuple.Pos()
			}
			if u, ok := (*o).(*ssa.UnOp); ok {
				if ex, ok := u.X.(*ssa.Extract); ok && ex.Tuple.Pos().IsValid() {
					return ex.Tuple.Pos()
				}
				if u.X.Pos().IsValid() {
					return u.X.Pos()
				}
			}
			if (*o).Pos().IsValid() {
				return (*o).Pos()
			}
		}
	}
	for _, s := range g.If.Block().Succs {
		for _, ins := range s.Instrs {
			if ins.Pos().IsValid() {
				return ins.Pos()
			}
		}
	}
	return 0
}

// splitOrigin: for the success half of a split error return (see inliner.splitErrorReturns) the error value whose
// nil-ness decides it; nil otherwise.
func splitOrigin(r *ssa.Return, idx int) ssa.Value {
	b := r.Block()
	if b.Comment != "split.ok" || idx != len(r.Results)-1 || len(b.Preds) != 1 {
		return nil
	}
	iff, ok := b.Preds[0].Instrs[len(b.Preds[0].Instrs)-1].(*ssa.If)
	if !ok {
		return nil
	}
	if bo, ok := iff.Cond.(*ssa.BinOp); ok {
		return bo.X
	}
	return nil
}
