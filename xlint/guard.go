package main

import (
	"go/token"
	"go/types"
	"sort"
	"strings"

	"golang.org/x/tools/go/ssa"
)

// FA is the per-function control-flow analysis: edge dominance, path conditions, exits.
type FA struct {
	P   *Program
	Fn  *ssa.Function
	X   *Exprer
	ifs []*ssa.If
	// edgeDom[if][succIdx] = set of block indices dominated by that edge
	edgeDom map[*ssa.If][2]map[int]bool
	exit    map[int]string // block index -> "reject" | "success" | "unknown" for blocks ending in Return/Panic
	rejOnly map[int]bool   // block can only reach rejecting exits
	// conditions and guards imported from callees whose failure this function propagates (see imports)
	imps       []*calleeImport
	impsDone   bool
	succConds  []*Expr
	succDone   bool
	inProgress bool
}

// calleeImport: a branch of this function on the (error / bool) result of a static in-repository callee.  What the
// callee checked before reporting success holds on the success edge; what it rejects, this function rejects.
type calleeImport struct {
	If      *ssa.If
	OkSucc  int // index of the successor taken when the callee succeeded
	Call    *ssa.Call
	Callee  *ssa.Function
	ArgExpr []*Expr
}

func (p *Program) FA(fn *ssa.Function) *FA {
	if a := p.fas[fn]; a != nil {
		return a
	}
	a := &FA{P: p, Fn: fn, X: p.Ex(fn), edgeDom: map[*ssa.If][2]map[int]bool{}, exit: map[int]string{}, rejOnly: map[int]bool{}}
	p.fas[fn] = a
	a.build()
	return a
}

func (a *FA) build() {
	fn := a.Fn
	if len(fn.Blocks) == 0 {
		return
	}
	for _, b := range fn.Blocks {
		if len(b.Instrs) == 0 {
			continue
		}
		if i, ok := b.Instrs[len(b.Instrs)-1].(*ssa.If); ok {
			a.ifs = append(a.ifs, i)
		}
	}
	for _, i := range a.ifs {
		var pair [2]map[int]bool
		for s := 0; s < 2; s++ {
			pair[s] = a.dominatedByEdge(i.Block(), s)
		}
		a.edgeDom[i] = pair
	}
	// exits
	for _, b := range fn.Blocks {
		if len(b.Instrs) == 0 {
			continue
		}
		switch t := b.Instrs[len(b.Instrs)-1].(type) {
		case *ssa.Panic:
			a.exit[b.Index] = "reject"
		case *ssa.Return:
			if fn.Recover != nil && b == fn.Recover {
				a.exit[b.Index] = "recover" // only runs after a recovered panic; not a normal exit
				continue
			}
			a.exit[b.Index] = a.classifyReturn(t)
		}
	}
	// rejOnly: least fixed point on acyclic reachability; blocks in cycles -> false unless all exits reject
	for _, b := range fn.Blocks {
		reach := a.reachFrom(b)
		ok, any := true, false
		for bi := range reach {
			if c, isExit := a.exit[bi]; isExit && c != "recover" {
				any = true
				if c != "reject" {
					ok = false
				}
			}
		}
		a.rejOnly[b.Index] = ok && any
	}
}

// loopExitTest: the block is inside a loop and one of its successors leaves that loop.
func (a *FA) loopExitTest(b *ssa.BasicBlock) bool {
	if !a.inCycle(b) {
		return false
	}
	for _, s := range b.Succs {
		if !a.reachFrom(s)[b.Index] {
			return true
		}
	}
	return false
}

func (a *FA) inCycle(b *ssa.BasicBlock) bool {
	for _, s := range b.Succs {
		if a.reachFrom(s)[b.Index] {
			return true
		}
	}
	return false
}

func (a *FA) reachFrom(b *ssa.BasicBlock) map[int]bool {
	seen := map[int]bool{b.Index: true}
	st := []*ssa.BasicBlock{b}
	for len(st) > 0 {
		c := st[len(st)-1]
		st = st[:len(st)-1]
		for _, s := range c.Succs {
			if !seen[s.Index] {
				seen[s.Index] = true
				st = append(st, s)
			}
		}
	}
	return seen
}

// dominatedByEdge: blocks unreachable from entry once edge (b -> b.Succs[s]) is removed.
func (a *FA) dominatedByEdge(b *ssa.BasicBlock, s int) map[int]bool {
	fn := a.Fn
	seen := map[int]bool{0: true}
	st := []*ssa.BasicBlock{fn.Blocks[0]}
	// also keep recover block reachable
	if fn.Recover != nil {
		seen[fn.Recover.Index] = true
		st = append(st, fn.Recover)
	}
	for len(st) > 0 {
		c := st[len(st)-1]
		st = st[:len(st)-1]
		for si, sc := range c.Succs {
			if c == b && si == s {
				// if both successors are the same block the edge does not dominate
				continue
			}
			if !seen[sc.Index] {
				seen[sc.Index] = true
				st = append(st, sc)
			}
		}
	}
	out := map[int]bool{}
	for _, bb := range fn.Blocks {
		if !seen[bb.Index] {
			out[bb.Index] = true
		}
	}
	return out
}

// PathConds returns the oriented conditions of all branch edges that dominate block b.
// trivialCond: a comparison of two constants (`var err error … if err != nil` left over after inlining): says nothing.
func trivialCond(c *Expr) bool {
	if c == nil || c.Op != "bin" || len(c.Args) != 2 {
		return false
	}
	k := func(e *Expr) bool { return e.Op == "const" && e.Name == "nil" } // (a zero cell may be written by a closure)
	return k(c.Args[0]) && k(c.Args[1])
}

// isRangeOk: the ok result of a range-over-map/string step.
func isRangeOk(c *Expr) bool {
	return c != nil && c.Op == "extract" && c.Name == "0" && len(c.Args) == 1 && c.Args[0].Op == "un" && c.Args[0].Name == "next "
}

func (a *FA) PathConds(b *ssa.BasicBlock) []*Expr {
	var out []*Expr
	for _, i := range a.ifs {
		pair := a.edgeDom[i]
		c := a.X.E(i.Cond)
		if trivialCond(c) {
			continue
		}
		if pair[0][b.Index] {
			out = append(out, c)
		}
		if pair[1][b.Index] && !isRangeOk(c) { // "the map / string iterator is exhausted" says nothing about any value
			out = append(out, negate(c))
		}
	}
	for _, im := range a.imports() {
		if a.edgeDom[im.If][im.OkSucc][b.Index] {
			for _, sc := range a.P.FA(im.Callee).SuccessConds() {
				out = append(out, substParams(sc, im.ArgExpr))
			}
		}
	}
	return out
}

// imports finds the branches on results of in-repository callees (bodies that were not inlined: rule vocabulary).
func (a *FA) imports() []*calleeImport {
	if a.impsDone {
		return a.imps
	}
	a.impsDone = true
	for _, i := range a.ifs {
		cond, neg := i.Cond, false
		for {
			if u, ok := cond.(*ssa.UnOp); ok && u.Op == token.NOT {
				cond, neg = u.X, !neg
				continue
			}
			break
		}
		var v ssa.Value
		okSucc := -1
		if bo, ok := cond.(*ssa.BinOp); ok && (bo.Op == token.NEQ || bo.Op == token.EQL) {
			if isNilConst(bo.Y) {
				v = bo.X
			} else if isNilConst(bo.X) {
				v = bo.Y
			}
			if v == nil || !isErrorType(v.Type()) {
				continue
			}
			okSucc = 1 // err != nil: success on the false edge
			if bo.Op == token.EQL {
				okSucc = 0
			}
		} else if b, isB := cond.Type().Underlying().(*types.Basic); isB && b.Info()&types.IsBoolean != 0 {
			v = cond
			okSucc = 0
		} else {
			continue
		}
		if neg {
			okSucc = 1 - okSucc
		}
		var call *ssa.Call
		switch t := v.(type) {
		case *ssa.Call:
			call = t
		case *ssa.Extract:
			call, _ = t.Tuple.(*ssa.Call)
			if call != nil && t.Index != call.Call.Signature().Results().Len()-1 {
				call = nil
			}
		}
		if call == nil || call.Call.IsInvoke() {
			continue
		}
		g := call.Call.StaticCallee()
		if g == nil || !inTeleport(g) || len(g.Blocks) == 0 || g == a.Fn {
			continue
		}
		var args []*Expr
		for _, x := range call.Call.Args {
			args = append(args, a.X.E(x))
		}
		a.imps = append(a.imps, &calleeImport{If: i, OkSucc: okSucc, Call: call, Callee: g, ArgExpr: args})
	}
	return a.imps
}

// SuccessConds: the conditions that hold on every non-rejecting return of the function, in terms of its parameters.
func (a *FA) SuccessConds() []*Expr {
	if a.succDone || a.inProgress {
		return a.succConds
	}
	a.inProgress = true
	defer func() { a.inProgress = false }()
	var common map[string]*Expr
	for _, r := range a.NonRejectReturns() {
		cur := map[string]*Expr{}
		for _, c := range a.PathConds(r.Block()) {
			cur[c.String()] = c
		}
		if common == nil {
			common = cur
			continue
		}
		for k := range common {
			if _, ok := cur[k]; !ok {
				delete(common, k)
			}
		}
	}
	var keys []string
	for k, e := range common {
		// only conditions over the parameters (and globals) can be carried to the caller
		local := e.Contains(func(s *Expr) bool { return s.Op == "self" || s.Op == "unknown" })
		if !local {
			keys = append(keys, k)
		}
	}
	sort.Strings(keys)
	for _, k := range keys {
		a.succConds = append(a.succConds, common[k])
	}
	a.succDone = true
	return a.succConds
}

func (a *FA) PathCondStrings(b *ssa.BasicBlock) map[string]bool {
	m := map[string]bool{}
	conds := a.PathConds(b)
	for _, c := range conds {
		m[c.String()] = true
	}
	eqClose(m, conds)
	return m
}

// eqClose adds, for every equality (A == B) among conds, the variants of the strings with A and B interchanged:
// an equality established on every path to a point makes its two sides interchangeable at that point.
func eqClose(m map[string]bool, conds []*Expr) {
	var eqs [][2]string
	for _, pc := range conds {
		if pc.Op != "bin" || pc.Name != "==" || len(pc.Args) != 2 {
			continue
		}
		x, y := pc.Args[0].String(), pc.Args[1].String()
		if len(x) < 4 || len(y) < 4 {
			continue
		}
		eqs = append(eqs, [2]string{x, y})
	}
	if len(eqs) == 0 {
		return
	}
	var add []string
	for s := range m {
		for _, e := range eqs {
			self := "(" + e[0] + " == " + e[1] + ")"
			if s == self {
				continue
			}
			if strings.Contains(s, e[0]) {
				add = append(add, strings.ReplaceAll(s, e[0], e[1]))
			}
			if strings.Contains(s, e[1]) {
				add = append(add, strings.ReplaceAll(s, e[1], e[0]))
			}
		}
	}
	for _, s := range add {
		m[s] = true
	}
}

func isErrorType(t types.Type) bool {
	return types.Identical(t, types.Universe.Lookup("error").Type())
}

func (a *FA) resultKind() string {
	res := a.Fn.Signature.Results()
	if res.Len() == 0 {
		return "none"
	}
	last := res.At(res.Len() - 1).Type()
	if isErrorType(last) {
		return "error"
	}
	if b, ok := last.Underlying().(*types.Basic); ok && b.Kind() == types.Bool {
		return "bool"
	}
	return "other"
}

func (a *FA) classifyReturn(r *ssa.Return) string {
	switch a.resultKind() {
	case "error":
		v := RetVal(r, len(r.Results)-1)
		return a.classifyErr(v, r.Block(), 0)
	case "bool":
		v := RetVal(r, len(r.Results)-1)
		if c, ok := v.(*ssa.Const); ok && c.Value != nil {
			if c.Value.String() == "false" {
				return "reject"
			}
			return "success"
		}
		return "unknown"
	}
	return "success"
}

var errCtorSuffixes = []string{
	"types/errors.Wrap", "types/errors.Wrapf", "fmt.Errorf", "errors.New",
	"types/errors.Register", "pkg/errors.Wrap", "pkg/errors.Wrapf", "pkg/errors.New", "pkg/errors.Errorf",
	"grpc/status.Error", "grpc/status.Errorf",
}

func (a *FA) classifyErr(v ssa.Value, at *ssa.BasicBlock, depth int) string {
	if depth > 6 {
		return "unknown"
	}
	switch v := v.(type) {
	case *ssa.Const:
		if v.IsNil() {
			return "success"
		}
		return "reject"
	case *ssa.MakeInterface:
		return "reject"
	case *ssa.UnOp:
		if v.Op == token.MUL {
			if g, ok := v.X.(*ssa.Global); ok && isErrorType(g.Type().(*types.Pointer).Elem()) {
				return "reject" // package-level Err* variable
			}
		}
	case *ssa.Phi:
		all := true
		for i, e := range v.Edges {
			pred := v.Block().Preds[i]
			if a.classifyErr(e, pred, depth+1) != "reject" {
				all = false
			}
		}
		if all {
			return "reject"
		}
		return "unknown"
	case *ssa.Call:
		if fn := a.P.resolveCallee(&v.Call); fn != nil {
			name := funcName(fn)
			for _, s := range errCtorSuffixes {
				if strings.HasSuffix(name, s) {
					if strings.HasSuffix(s, "Wrap") || strings.HasSuffix(s, "Wrapf") {
						// Wrap(nil) is nil: first argument must itself be a definite error
						if len(v.Call.Args) > 0 && a.classifyErr(v.Call.Args[0], at, depth+1) == "reject" {
							return "reject"
						}
						return "unknown"
					}
					return "reject"
				}
			}
		}
	}
	// a value that was tested != nil on every path to `at`
	want := "(" + a.X.E(v).String() + " != nil)"
	if a.PathCondStrings(at)[want] {
		return "reject"
	}
	return "unknown"
}

// Guard is a branch one of whose edges leads only to rejecting exits.
type Guard struct {
	If       *ssa.If
	Cond     *Expr // condition under which the function rejects
	Ctx      []*Expr
	Imported bool // taken over from a callee whose failure this function propagates
}

func (g *Guard) String() string {
	s := "reject " + g.Cond.String()
	if len(g.Ctx) > 0 {
		cs := make([]string, len(g.Ctx))
		for i, c := range g.Ctx {
			cs[i] = c.String()
		}
		sort.Strings(cs)
		s = "[" + strings.Join(cs, " && ") + "] ⇒ " + s
	}
	return s
}

// OwnGuards: the guards that are branches of this function's own (normalised) body.
func (a *FA) OwnGuards() []*Guard {
	var out []*Guard
	for _, g := range a.Guards() {
		if !g.Imported {
			out = append(out, g)
		}
	}
	return out
}

func (a *FA) Guards() []*Guard {
	var out []*Guard
	for _, i := range a.ifs {
		b := i.Block()
		t, f := b.Succs[0], b.Succs[1]
		c := a.X.E(i.Cond)
		rt, rf := a.rejOnly[t.Index], a.rejOnly[f.Index]
		if rt == rf {
			continue
		}
		g := &Guard{If: i}
		if rt {
			g.Cond = c
		} else {
			g.Cond = negate(c)
		}
		// context: dominating branch conditions that are not themselves the pass-edge of a guard
		for _, j := range a.ifs {
			if j == i || a.loopExitTest(j.Block()) {
				continue // loop-header conditions (tests that leave the loop) are not part of a guard's context
			}
			pair := a.edgeDom[j]
			jb := j.Block()
			jc := a.X.E(j.Cond)
			if pair[0][b.Index] && !a.rejOnly[jb.Succs[1].Index] {
				g.Ctx = append(g.Ctx, jc)
			}
			if pair[1][b.Index] && !a.rejOnly[jb.Succs[0].Index] {
				g.Ctx = append(g.Ctx, negate(jc))
			}
		}
		out = append(out, g)
	}
	if !a.inProgress {
		a.inProgress = true
		for _, im := range a.imports() {
			fail := im.If.Block().Succs[1-im.OkSucc]
			if !a.rejOnly[fail.Index] {
				continue
			}
			for _, cg := range a.P.FA(im.Callee).Guards() {
				ng := &Guard{If: im.If, Cond: substParams(cg.Cond, im.ArgExpr), Imported: true}
				for _, cx := range cg.Ctx {
					ng.Ctx = append(ng.Ctx, substParams(cx, im.ArgExpr))
				}
				out = append(out, ng)
			}
		}
		a.inProgress = false
	}
	return out
}

// GuardStrings: canonical strings of all guards (with and without context).
func (a *FA) GuardSet() map[string]*Guard {
	m := map[string]*Guard{}
	for _, g := range a.Guards() {
		m[g.String()] = g
		one := map[string]bool{g.String(): true}
		// a guard on a merged value (`want := B; if c { want = A }; if x != want {reject}`) is one guard per incoming
		// edge, each in the context of that edge's condition
		for _, v := range a.guardInstances(g) {
			one[v.String()] = true
		}
		// `if a { if b {reject} }` and `if b && a {reject}` reject under the same conjunction: any conjunct may be
		// written as the innermost test
		if n := len(g.Ctx); n >= 1 && n <= 3 && !g.Imported {
			all := append(append([]*Expr(nil), g.Ctx...), g.Cond)
			for i := range all {
				ng := &Guard{If: g.If, Cond: all[i]}
				for j := range all {
					if j != i {
						ng.Ctx = append(ng.Ctx, all[j])
					}
				}
				one[ng.String()] = true
			}
		}
		eqClose(one, a.PathConds(g.If.Block()))
		for s := range one {
			if _, dup := m[s]; !dup {
				m[s] = g
			}
		}
	}
	return m
}

func (a *FA) guardInstances(g *Guard) []*Guard {
	if g.Imported {
		return nil
	}
	var pick *ssa.Phi
	n := 0
	g.Cond.Walk(func(s *Expr) {
		ph, ok := s.Val.(*ssa.Phi)
		if !ok || s.Op != "phi" || s.Name != "" || ph.Parent() != a.Fn {
			return
		}
		if pick != ph {
			pick = ph
			n++
		}
	})
	if pick == nil || n != 1 || len(pick.Edges) > 4 || len(pick.Edges) != len(pick.Block().Preds) {
		return nil
	}
	conds := a.P.PhiEdgeConds(pick)
	common := map[string]bool{}
	for s := range conds[0] {
		common[s] = true
	}
	for _, c2 := range conds[1:] {
		for s := range common {
			if !c2[s] {
				delete(common, s)
			}
		}
	}
	var out []*Guard
	for i, e := range pick.Edges {
		ng := &Guard{If: g.If, Cond: replaceVal(g.Cond, pick, a.X.E(e)), Ctx: append([]*Expr(nil), g.Ctx...)}
		var extra []string
		for s := range conds[i] {
			if !common[s] {
				extra = append(extra, s)
			}
		}
		sort.Strings(extra)
		for _, s := range extra {
			ng.Ctx = append(ng.Ctx, mk("lin", s, nil))
		}
		out = append(out, ng)
	}
	return out
}

// Calls returns call instructions in fn whose resolved callee (static) or invoked method matches pred.
type CallSite struct {
	Ins  ssa.CallInstruction
	Fn   *ssa.Function
	Name string // canonical callee name
	// instance of a site whose argument is a merge of constants (`s := 2; if c { s = 1 }; f(s)`): the merge is
	// resolved to one incoming edge, and the conditions of that edge hold in addition to those of the site
	PhiPick    *ssa.Phi
	PhiEdge    int
	ExtraConds []string
}

func (p *Program) CallsIn(fn *ssa.Function) []*CallSite {
	var out []*CallSite
	for _, b := range fn.Blocks {
		for _, ins := range b.Instrs {
			ci, ok := ins.(ssa.CallInstruction)
			if !ok {
				continue
			}
			c := ci.Common()
			name := ""
			if c.IsInvoke() {
				name = "iface:" + ifaceName(c.Value.Type()) + "." + c.Method.Name()
			} else if b, ok := c.Value.(*ssa.Builtin); ok {
				name = "builtin:" + b.Name()
			} else if f := p.resolveCallee(c); f != nil {
				name = funcName(f)
			} else {
				name = "dyn:" + p.Ex(fn).E(c.Value).String()
			}
			out = append(out, &CallSite{Ins: ci, Fn: fn, Name: name})
		}
	}
	return out
}

// CallsInOwn is CallsIn restricted to the function's own instructions (not those copied in from inlined helpers):
// whole-program enumerations use it so that every call site is seen exactly once, in the function that contains it.
func (p *Program) CallsInOwn(fn *ssa.Function) []*CallSite {
	var out []*CallSite
	for _, cs := range p.CallsIn(fn) {
		if !p.IsClone(cs.Ins) {
			out = append(out, cs)
		}
	}
	return out
}

// ArgExprs returns canonical expressions for receiver (if any) + args of a call site.
func (p *Program) ArgExprs(cs *CallSite) []*Expr {
	x := p.Ex(cs.Fn)
	c := cs.Ins.Common()
	var out []*Expr
	if c.IsInvoke() {
		out = append(out, x.E(c.Value))
	}
	for _, a := range c.Args {
		out = append(out, x.E(a))
	}
	if cs.PhiPick != nil {
		repl := x.E(cs.PhiPick.Edges[cs.PhiEdge])
		for i, e := range out {
			out[i] = replaceVal(e, cs.PhiPick, repl)
		}
	}
	return out
}

// replaceVal rewrites the nodes of e that stand for value v.
func replaceVal(e *Expr, v ssa.Value, repl *Expr) *Expr {
	if e == nil {
		return nil
	}
	if e.Val == v && e.Op == "phi" {
		return repl
	}
	if len(e.Args) == 0 {
		return e
	}
	na := make([]*Expr, len(e.Args))
	changed := false
	for i, a := range e.Args {
		na[i] = replaceVal(a, v, repl)
		if na[i] != a {
			changed = true
		}
	}
	if !changed {
		return e
	}
	return reorder(&Expr{Op: e.Op, Name: e.Name, Args: na, Val: e.Val})
}

// reorder restores the canonical operand order of a symmetric comparison after its operands were rewritten.
func reorder(e *Expr) *Expr {
	if e.Op == "bin" && len(e.Args) == 2 && (strings.HasPrefix(e.Name, "==") || strings.HasPrefix(e.Name, "!=")) &&
		e.Args[0].Op != "lin" && e.Args[1].Op != "lin" && e.Args[1].Op != "const" && e.Args[0].String() > e.Args[1].String() {
		return &Expr{Op: e.Op, Name: e.Name, Args: []*Expr{e.Args[1], e.Args[0]}, Val: e.Val}
	}
	return e
}

// Instances expands a call site whose arguments contain a merge of constants into one instance per incoming edge.
func (p *Program) Instances(cs *CallSite) []*CallSite { return p.instances(cs, true) }

// InstancesAny also resolves merges of arbitrary values (`v := a; if c { v = b }; f(v)`).
func (p *Program) InstancesAny(cs *CallSite) []*CallSite { return p.instances(cs, false) }

func (p *Program) instances(cs *CallSite, constOnly bool) []*CallSite {
	if cs.PhiPick != nil {
		return []*CallSite{cs}
	}
	var pick *ssa.Phi
	n := 0
	for _, e := range p.ArgExprs(cs) {
		e.Walk(func(s *Expr) {
			ph, ok := s.Val.(*ssa.Phi)
			if !ok || s.Op != "phi" || s.Name != "" || ph.Parent() != cs.Fn {
				return
			}
			if constOnly {
				for _, a := range s.Args {
					if a.Op != "const" {
						return
					}
				}
			}
			for _, pr := range ph.Block().Preds {
				if p.Dominates(ph.Block(), pr) {
					return // the merge at a loop head (an accumulator) is not a choice between call-site instances
				}
			}
			if pick != ph {
				pick = ph
				n++
			}
		})
	}
	if pick == nil || n != 1 || len(pick.Edges) > 4 || len(pick.Edges) != len(pick.Block().Preds) {
		return []*CallSite{cs}
	}
	a := p.FA(cs.Fn)
	var out []*CallSite
	for i := range pick.Edges {
		pr := pick.Block().Preds[i]
		var extra []string
		for s := range a.PathCondStrings(pr) {
			extra = append(extra, s)
		}
		if iff, ok := pr.Instrs[len(pr.Instrs)-1].(*ssa.If); ok && pr.Succs[0] != pr.Succs[1] {
			c := a.X.E(iff.Cond)
			if pr.Succs[1] == pick.Block() {
				c = negate(c)
			}
			extra = append(extra, c.String())
		}
		sort.Strings(extra)
		out = append(out, &CallSite{Ins: cs.Ins, Fn: cs.Fn, Name: cs.Name, PhiPick: pick, PhiEdge: i, ExtraConds: extra})
	}
	return out
}

// SuccessReturns lists Return instructions classified success or unknown (i.e. not definitely rejecting).
func (a *FA) NonRejectReturns() []*ssa.Return {
	var out []*ssa.Return
	for _, b := range a.Fn.Blocks {
		if len(b.Instrs) == 0 {
			continue
		}
		if r, ok := b.Instrs[len(b.Instrs)-1].(*ssa.Return); ok && a.exit[b.Index] != "reject" && a.exit[b.Index] != "recover" {
			out = append(out, r)
		}
	}
	return out
}

// RetVal returns result i of a Return, looking through the spill cell that go/ssa introduces when the
// function has deferred calls (store to the result cell, run defers, return the loaded cell).
func RetVal(r *ssa.Return, i int) ssa.Value {
	v := r.Results[i]
	ld, ok := v.(*ssa.UnOp)
	if !ok || ld.Op != token.MUL {
		return v
	}
	al, ok := ld.X.(*ssa.Alloc)
	if !ok {
		return v
	}
	instrs := r.Block().Instrs
	for k := len(instrs) - 1; k >= 0; k-- {
		if st, ok := instrs[k].(*ssa.Store); ok && st.Addr == al {
			return st.Val
		}
	}
	return v
}

// PhiEdgeConds: for every incoming edge of a merge, the conditions under which control arrives through that edge.
func (p *Program) PhiEdgeConds(ph *ssa.Phi) []map[string]bool {
	a := p.FA(ph.Parent())
	var out []map[string]bool
	for i := range ph.Edges {
		pr := ph.Block().Preds[i]
		m := map[string]bool{}
		for _, c := range a.PathConds(pr) { // as written (no equality variants)
			m[c.String()] = true
		}
		if iff, ok := pr.Instrs[len(pr.Instrs)-1].(*ssa.If); ok && pr.Succs[0] != pr.Succs[1] {
			c := a.X.E(iff.Cond)
			if pr.Succs[1] == ph.Block() {
				c = negate(c)
			}
			m[c.String()] = true
		}
		out = append(out, m)
	}
	return out
}
