package main

import (
	"fmt"
	"go/token"
	"sort"
	"strings"

	"golang.org/x/tools/go/callgraph"
	"golang.org/x/tools/go/ssa"
)

// Macros expand {NAME} placeholders in expected canonical strings.
type Macros map[string]string

func (m Macros) X(s string) string {
	for i := 0; i < 4; i++ {
		changed := false
		for k, v := range m {
			ph := "{" + k + "}"
			if strings.Contains(s, ph) {
				s = strings.ReplaceAll(s, ph, v)
				changed = true
			}
		}
		if !changed {
			break
		}
	}
	return s
}

// Short renders a canonical string with macros folded back in (for messages).
func (m Macros) Fold(s string) string {
	type kv struct{ k, v string }
	var kvs []kv
	for k, v := range m {
		kvs = append(kvs, kv{k, m.X(v)})
	}
	sort.Slice(kvs, func(i, j int) bool { return len(kvs[i].v) > len(kvs[j].v) })
	for _, e := range kvs {
		s = strings.ReplaceAll(s, e.v, "{"+e.k+"}")
	}
	return s
}

// HasGuard: fn has a rejecting branch with canonical condition want ("reject …" string, macros expanded).
func (c *Check) HasGuard(fn *ssa.Function, rule, label string, m Macros, want string) bool {
	c.Touch(fn)
	a := c.P.FA(fn)
	want = m.X(want)
	gs := a.GuardSet()
	construct := funcName(fn) + "/" + label
	if g, ok := gs[want]; ok {
		c.Ok(rule, construct, g.If.Cond.Pos(), m.Fold(want))
		return true
	}
	// also accept the guard regardless of context prefix if want has no context
	if !strings.HasPrefix(want, "[") {
		for s, g := range gs {
			if i := strings.Index(s, "] ⇒ "); i >= 0 && s[i+len("] ⇒ "):] == want {
				_ = g
			}
		}
	}
	var have []string
	for s := range gs {
		have = append(have, m.Fold(s))
	}
	sort.Strings(have)
	c.Bad(rule, construct, fn.Pos(), fmt.Sprintf("required guard absent: %s\n    guards present in %s:\n      %s", m.Fold(want), funcName(fn), strings.Join(have, "\n      ")))
	return false
}

// Calls returns the call sites in fn whose canonical callee name ends with suffix.
func (c *Check) Calls(fn *ssa.Function, suffix string) []*CallSite {
	c.Touch(fn)
	var out []*CallSite
	for _, cs := range c.P.CallsIn(fn) {
		if strings.HasSuffix(cs.Name, suffix) {
			out = append(out, cs)
		}
	}
	return out
}

// OneCall requires exactly n call sites (n<0: at least one) and reports otherwise.
func (c *Check) NCalls(fn *ssa.Function, rule, suffix string, n int) []*CallSite {
	cs := c.Calls(fn, suffix)
	construct := funcName(fn) + "/calls:" + suffix
	ok := len(cs) == n || (n < 0 && len(cs) >= 1)
	pos := fn.Pos()
	if len(cs) > 0 {
		pos = cs[0].Ins.Pos()
	}
	c.Req(ok, rule, construct, pos, fmt.Sprintf("%d call site(s)", len(cs)), fmt.Sprintf("expected %d call site(s) of %s in %s, found %d", n, suffix, funcName(fn), len(cs)))
	return cs
}

// Under: the instruction's block is dominated by branch edges carrying all the wanted conditions.
func (c *Check) Under(fn *ssa.Function, rule, label string, m Macros, at ssa.Instruction, wants ...string) bool {
	a := c.P.FA(fn)
	have := a.PathCondStrings(at.Block())
	for _, x := range c.extraConds {
		have[x] = true
	}
	// an effect that is itself a call to an in-repository function: what that function requires for its own success
	// holds for the effect (its writes are undone when it rejects)
	if call, isCall := at.(*ssa.Call); isCall && !call.Call.IsInvoke() {
		if g := call.Call.StaticCallee(); g != nil && inTeleport(g) && len(g.Blocks) > 0 && g != fn {
			var args []*Expr
			for _, x := range call.Call.Args {
				args = append(args, a.X.E(x))
			}
			for _, sc := range c.P.FA(g).SuccessConds() {
				have[substParams(sc, args).String()] = true
			}
		}
	}
	ok := true
	for _, w := range wants {
		w = m.X(w)
		construct := funcName(fn) + "/" + label + " under " + m.Fold(w)
		if have[w] {
			c.Ok(rule, construct, at.Pos(), "")
		} else {
			var hs []string
			for h := range have {
				hs = append(hs, m.Fold(h))
			}
			sort.Strings(hs)
			c.Bad(rule, construct, at.Pos(), fmt.Sprintf("%s is not dominated by the branch edge [%s]; dominating conditions: %s", label, m.Fold(w), strings.Join(hs, " ; ")))
			ok = false
		}
	}
	return ok
}

// UnderNoErr: instruction dominated by the err==nil edge of the given call expression string.
func errNil(callExpr string) string  { return "(" + callExpr + " == nil)" }
func errNil1(callExpr string) string { return "(" + callExpr + "#1 == nil)" }

// ArgIs: canonical expression of argument i (receiver first) equals want.
func (c *Check) ArgIs(cs *CallSite, rule, label string, m Macros, i int, want string) bool {
	args := c.P.ArgExprs(cs)
	construct := funcName(cs.Fn) + "/" + label
	if i >= len(args) {
		c.Bad(rule, construct, cs.Ins.Pos(), fmt.Sprintf("call %s has no argument %d", cs.Name, i))
		return false
	}
	want = m.X(want)
	got := args[i].String()
	if got != want {
		if ex := c.expandConstructor(args[i]); ex != nil && ex.String() == want {
			got = want
		}
	}
	if got != want {
		// an equality established on every path to the call makes its two sides interchangeable
		for _, pc := range c.P.FA(cs.Fn).PathConds(cs.Ins.Block()) {
			if pc.Op != "bin" || pc.Name != "==" || len(pc.Args) != 2 {
				continue
			}
			a, b := pc.Args[0].String(), pc.Args[1].String()
			if len(a) < 3 || len(b) < 3 {
				continue
			}
			if strings.ReplaceAll(got, a, b) == want || strings.ReplaceAll(got, b, a) == want {
				got = want
				break
			}
		}
	}
	return c.Req(got == want, rule, construct, cs.Ins.Pos(), m.Fold(got), fmt.Sprintf("argument %d of %s is %s, required origin %s", i, cs.Name, m.Fold(got), m.Fold(want)))
}

// SuccessUnder: every non-rejecting return of fn is dominated by the wanted conditions.
func (c *Check) SuccessUnder(fn *ssa.Function, rule string, m Macros, wants ...string) {
	a := c.P.FA(fn)
	rets := a.NonRejectReturns()
	if len(rets) == 0 {
		c.Bad(rule, funcName(fn)+"/success-return", fn.Pos(), "function has no non-rejecting return")
		return
	}
	for i, r := range rets {
		c.Under(fn, rule, fmt.Sprintf("success-return#%d", i), m, r, wants...)
	}
}

// ErrPropagated: the error result of the call is tested and its non-nil edge is rejecting, or the call is
// in tail position (its error is returned directly).
func (c *Check) ErrPropagated(cs *CallSite, rule, label string) bool {
	fn := cs.Fn
	a := c.P.FA(fn)
	construct := funcName(fn) + "/err:" + label
	v, ok := cs.Ins.(*ssa.Call)
	if !ok {
		c.Bad(rule, construct, cs.Ins.Pos(), "call is deferred or spawned; its error is lost")
		return false
	}
	// locate the error-typed result
	res := v.Call.Signature().Results()
	if res.Len() == 0 || !isErrorType(res.At(res.Len()-1).Type()) {
		c.Bad(rule, construct, v.Pos(), "callee returns no error")
		return false
	}
	var errVal ssa.Value = v
	if res.Len() > 1 {
		errVal = nil
		for _, r := range *v.Referrers() {
			if ex, ok := r.(*ssa.Extract); ok && ex.Index == res.Len()-1 {
				errVal = ex
			}
		}
		if errVal == nil {
			c.Bad(rule, construct, v.Pos(), "error result is never extracted (dropped)")
			return false
		}
	}
	es := a.X.E(errVal).String()
	want := "reject (" + es + " != nil)"
	for s := range a.GuardSet() {
		if s == want || strings.HasSuffix(s, "] ⇒ "+want) {
			c.Ok(rule, construct, v.Pos(), "error tested, non-nil edge rejects")
			return true
		}
	}
	// tail propagation: some return yields this very value as its error
	for _, b := range fn.Blocks {
		if r, ok := b.Instrs[len(b.Instrs)-1].(*ssa.Return); ok && len(r.Results) > 0 {
			last := RetVal(r, len(r.Results)-1)
			if isErrorType(last.Type()) && reachesValue(last, errVal, 0) {
				// must not be a return under err==nil only; accept direct propagation
				c.Ok(rule, construct, v.Pos(), "error returned directly (tail propagation)")
				return true
			}
		}
	}
	c.Bad(rule, construct, v.Pos(), fmt.Sprintf("error of %s is neither tested with a rejecting non-nil edge nor returned", cs.Name))
	return false
}

func reachesValue(v, target ssa.Value, d int) bool {
	if v == target {
		return true
	}
	if d > 4 {
		return false
	}
	if ph, ok := v.(*ssa.Phi); ok {
		for _, e := range ph.Edges {
			if reachesValue(e, target, d+1) {
				return true
			}
		}
	}
	return false
}

// ---- call graph helpers ----------------------------------------------------------------------

func inScope(fn *ssa.Function) bool {
	if !inTeleport(fn) || fn.Synthetic != "" {
		return false
	}
	pk := fnPkgPath(fn)
	for _, ex := range []string{"/testing", "/testutil", "/tools", "/cmd", "/client/cli", "/client/utils", "/simulation", "/client/rest", "/docs", "/tests"} {
		if strings.Contains(pk+"/", ex+"/") {
			return false
		}
	}
	return true
}

func fnPkgPath(fn *ssa.Function) string {
	for f := fn; f != nil; f = f.Parent() {
		if f.Pkg != nil {
			return f.Pkg.Pkg.Path()
		}
		if f.Origin() != nil && f.Origin().Pkg != nil {
			return f.Origin().Pkg.Pkg.Path()
		}
	}
	return ""
}

// StaticCallers: in-scope teleport functions that contain a call (static or via closure body) to target.
func (c *Check) StaticCallers(target *ssa.Function) map[string]token.Pos {
	out := map[string]token.Pos{}
	for fn := range c.P.AllFuncs {
		if !inScope(fn) || len(fn.Blocks) == 0 {
			continue
		}
		for _, cs := range c.P.CallsInOwn(fn) {
			if f := c.P.resolveCallee(cs.Ins.Common()); f != nil && f == target {
				out[funcName(rootFn(fn))] = cs.Ins.Pos()
			}
		}
		// call sites that the normal form replaced by the helper's body
		if c.P.inl != nil {
			for g, sites := range c.P.inl.callers {
				if c.P.unwrap(g) != target {
					continue
				}
				for _, s := range sites {
					if s.Caller == fn {
						out[funcName(rootFn(fn))] = s.Pos
					}
				}
			}
		}
		// function value taken (method value / function reference) counts as a potential caller
		for _, b := range fn.Blocks {
			for _, ins := range b.Instrs {
				if c.P.IsClone(ins) {
					continue
				}
				for _, op := range ins.Operands(nil) {
					if f, ok := (*op).(*ssa.Function); ok && c.P.unwrap(f) == target {
						if ci, isCall := ins.(ssa.CallInstruction); isCall && ci.Common().Value == *op {
							continue
						}
						out[funcName(rootFn(fn))+" (function value)"] = ins.Pos()
					}
				}
			}
		}
	}
	return out
}

// fnByName finds the in-scope function with the given canonical name.
func (c *Check) fnByName(name string) *ssa.Function {
	if c.byName == nil {
		c.byName = map[string]*ssa.Function{}
		for fn := range c.P.AllFuncs {
			if inScope(fn) {
				c.byName[funcName(fn)] = fn
			}
		}
	}
	return c.byName[name]
}

func rootFn(fn *ssa.Function) *ssa.Function {
	for fn.Parent() != nil {
		fn = fn.Parent()
	}
	return fn
}

// WhoMayCall: callers of target (in state-machine scope) ⊆ allowed (by canonical name suffix).
func (c *Check) WhoMayCall(rule string, target *ssa.Function, allowed ...string) {
	c.Touch(target)
	callers := c.StaticCallers(target)
	names := make([]string, 0, len(callers))
	for n := range callers {
		names = append(names, n)
	}
	sort.Strings(names)
	for _, n := range names {
		ok := false
		for _, a := range allowed {
			if strings.HasSuffix(n, a) {
				ok = true
			}
		}
		if !ok {
			// a helper that exists only inlined into other functions is judged by those functions
			if f := c.fnByName(n); f != nil && c.P.Absorbed(f) {
				ok = true
				for _, o := range c.P.Owners(f) {
					oneOK := false
					for _, a := range allowed {
						if strings.HasSuffix(o, a) {
							oneOK = true
						}
					}
					ok = ok && oneOK
				}
			}
		}
		c.Req(ok, rule, funcName(target)+" called-by "+n, callers[n], "allowed caller", fmt.Sprintf("%s is called from %s, which is not in the allowed set %v", funcName(target), n, allowed))
	}
	for _, a := range allowed {
		found := false
		for _, n := range names {
			if strings.HasSuffix(n, a) {
				found = true
			}
		}
		if !found {
			// an allowed caller that no longer calls is not a violation; recorded for the floor only
			continue
		}
	}
}

// Reachable computes the set of teleport functions reachable from roots over the call graph.
func (c *Check) Reachable(roots []*ssa.Function, kind string, stop func(*ssa.Function) bool) map[*ssa.Function]*ssa.Function {
	if c.AltCG {
		if kind == "cha" {
			kind = "vta"
		} else {
			kind = "cha"
		}
	}
	g := c.P.CallGraph(kind)
	parent := map[*ssa.Function]*ssa.Function{}
	var q []*ssa.Function
	for _, r := range roots {
		if _, ok := parent[r]; !ok {
			parent[r] = nil
			q = append(q, r)
		}
	}
	for len(q) > 0 {
		f := q[0]
		q = q[1:]
		n := g.Nodes[f]
		if n == nil {
			continue
		}
		// also closures defined inside f
		for _, af := range f.AnonFuncs {
			if _, ok := parent[af]; !ok {
				parent[af] = f
				q = append(q, af)
			}
		}
		for _, e := range n.Out {
			cal := e.Callee.Func
			if cal == nil {
				continue
			}
			if !inTeleport(cal) {
				continue
			}
			if stop != nil && stop(cal) {
				continue
			}
			if _, ok := parent[cal]; !ok {
				parent[cal] = f
				q = append(q, cal)
			}
		}
	}
	return parent
}

func pathTo(parent map[*ssa.Function]*ssa.Function, f *ssa.Function) string {
	var ps []string
	for x := f; x != nil; x = parent[x] {
		ps = append(ps, funcName(x))
		if len(ps) > 12 {
			break
		}
	}
	for i, j := 0, len(ps)-1; i < j; i, j = i+1, j-1 {
		ps[i], ps[j] = ps[j], ps[i]
	}
	return strings.Join(ps, " → ")
}

var _ = callgraph.CalleesOf

// PathCount enumerates the acyclic entry→non-rejecting-return paths of fn and, for each, counts the call sites matching
// pred and records the branch conditions taken. fn must be loop-free on those paths (cycles are cut).
type pathInfo struct {
	Count int
	Conds map[string]bool
	Ret   *ssa.Return
}

func (c *Check) PathCounts(fn *ssa.Function, pred func(*CallSite) bool) []pathInfo {
	fa := c.P.FA(fn)
	sites := map[*ssa.BasicBlock]int{}
	for _, cs := range c.P.CallsIn(fn) {
		if pred(cs) {
			sites[cs.Ins.Block()]++
		}
	}
	var out []pathInfo
	var walk func(b *ssa.BasicBlock, onPath map[*ssa.BasicBlock]bool, count int, conds []string)
	walk = func(b *ssa.BasicBlock, onPath map[*ssa.BasicBlock]bool, count int, conds []string) {
		if onPath[b] || len(out) > 20000 {
			return
		}
		onPath[b] = true
		defer delete(onPath, b)
		count += sites[b]
		last := b.Instrs[len(b.Instrs)-1]
		switch t := last.(type) {
		case *ssa.Return:
			if fa.exit[b.Index] != "reject" && fa.exit[b.Index] != "recover" {
				m := map[string]bool{}
				for _, s := range conds {
					m[s] = true
				}
				out = append(out, pathInfo{Count: count, Conds: m, Ret: t})
			}
		case *ssa.If:
			ce := fa.X.E(t.Cond)
			walk(b.Succs[0], onPath, count, append(conds, ce.String()))
			walk(b.Succs[1], onPath, count, append(conds[:len(conds):len(conds)], negate(ce).String()))
		default:
			for _, s := range b.Succs {
				walk(s, onPath, count, conds)
			}
		}
	}
	if len(fn.Blocks) > 0 {
		walk(fn.Blocks[0], map[*ssa.BasicBlock]bool{}, 0, nil)
	}
	return out
}

func sprint(i int) string { return fmt.Sprint(i) }

// expandConstructor: a call to an in-repository function that is one straight line ending in a single return is
// replaced by what it returns (in the caller's terms): `h.ConsensusState()` and the literal it builds are the same value.
func (c *Check) expandConstructor(e *Expr) *Expr {
	if e == nil || e.Op != "call" {
		return nil
	}
	cv, ok := e.Val.(*ssa.Call)
	if !ok {
		return nil
	}
	fn := cv.Call.StaticCallee()
	if fn == nil || !inTeleport(fn) || len(fn.Blocks) == 0 || len(fn.Blocks) > 4 || fn.Signature.Results().Len() != 1 {
		return nil
	}
	rets := c.P.RetExprs(fn, 0)
	if len(rets) != 1 {
		return nil
	}
	return substParams(rets[0], e.Args)
}
