package main

import (
	"fmt"
	"strings"

	"golang.org/x/tools/go/ssa"
)

func init() { register("C20", c20) }

func c20(c *Check) {
	c.Declined = []string{
		"supply conservation and 'the pool never goes negative' as bank-module behaviour over block sequences (runtime values; bank is trusted)",
		"parameter changes between blocks (the per-block structure is decided; params are re-read every block)",
	}
	c.Trusted = []string{"cosmos-sdk bank SendCoinsFromModuleToModule / GetBalance", "x/params validation on update", "go/ssa"}
	m := Macros{
		"P":   "rvesting/keeper.(Keeper).GetParams($1, $0)",
		"R":   "{P}.PerBlockReward[μ{0}]",
		"REM": "rvesting/keeper.(Keeper).GetRemainingCoin($1, $0, {R}.Denom)",
		"V":   "μ{cosmos-sdk/types.NewCoins(nil)}",
	}
	c.Rule("C20/runs-in-every-block", "the module's BeginBlock runs the vesting step on every path, exactly once, with the block's context and the module's keeper: no height, time or state condition in front of it", 2)
	{
		bb := c.F("x/rvesting/module.AppModule.BeginBlock")
		isBB := func(cs *CallSite) bool { return strings.HasSuffix(cs.Name, "rvesting/module.BeginBlocker") }
		paths := c.PathCounts(bb, isBB)
		ok := len(paths) > 0
		for _, p := range paths {
			if p.Count != 1 {
				ok = false
			}
		}
		c.Req(ok, "C20/runs-in-every-block", funcName(bb), bb.Pos(), fmt.Sprint(len(paths), " path(s), one call each"), "a path through AppModule.BeginBlock does not call BeginBlocker exactly once (the vesting step is skipped or repeated in some blocks)")
		for _, cs := range c.P.CallsIn(bb) {
			if isBB(cs) {
				c.ArgIs(cs, "C20/runs-in-every-block", "BeginBlocker.ctx", Macros{}, 0, "$1")
				c.ArgIs(cs, "C20/runs-in-every-block", "BeginBlocker.keeper", Macros{}, 1, "$0.keeper")
			}
		}
	}
	c.Rule("C20/begin-blocker", "BeginBlocker: nothing happens unless EnableVesting; per reward the pool balance of that reward's denomination is read, a zero balance is skipped, and exactly one of {balance (if balance < reward), reward (otherwise)} is added; one transfer of the sum, only if non-zero", 14)
	c.Spec("C20/begin-blocker", m, FnSpec{Fn: "x/rvesting/module.BeginBlocker", Effects: []Eff{
		{Label: "read-pool", Callee: "rvesting/keeper.(Keeper).GetRemainingCoin", N: 1, Args: map[int]string{0: "$1", 1: "$0", 2: "{R}.Denom"}, Under: []string{"{P}.EnableVesting"}},
		{Label: "add-remaining", Callee: "cosmos-sdk/types.(Coins).Add", Filter: "[{REM}]", N: 1, Args: map[int]string{0: "{V}"}, Under: []string{"({REM}.Amount <i {R}.Amount)", "!cosmos-sdk/types.(Coin).IsZero({REM})", "{P}.EnableVesting"}},
		{Label: "add-reward", Callee: "cosmos-sdk/types.(Coins).Add", Filter: "[{R}]", N: 1, Args: map[int]string{0: "{V}"}, Under: []string{"({R}.Amount <=i {REM}.Amount)", "!cosmos-sdk/types.(Coin).IsZero({REM})", "{P}.EnableVesting"}},
		{Label: "adds-total", Callee: "cosmos-sdk/types.(Coins).Add", N: 2},
		{Label: "send", Callee: "rvesting/keeper.(Keeper).SendVestedCoins", N: 1, Args: map[int]string{0: "$1", 1: "$0", 2: "{V}"}, Under: []string{"!cosmos-sdk/types.(Coins).IsZero({V})", "{P}.EnableVesting"}},
	}})
	// the accumulator only ever receives the results of those two Add calls (and starts empty)
	bb := c.F("x/rvesting/module.BeginBlocker")
	for _, cs := range c.Calls(bb, "rvesting/keeper.(Keeper).SendVestedCoins") {
		a := c.P.ArgExprs(cs)[2]
		c.Req(a.String() == m.X("{V}"), "C20/begin-blocker", "accumulator starts from NewCoins() and is only extended by Add", cs.Ins.Pos(), a.String(), "the coins sent are "+a.String())
	}

	c.Rule("C20/empty-pool-skips-only-that-denomination", "when one denomination's pool is empty the loop continues with the next reward (the zero-balance edge returns to the loop), it does not end the release of the others", 1)
	{
		fa := c.P.FA(bb)
		x := c.P.Ex(bb)
		var readBlock *ssa.BasicBlock
		for _, cs := range c.Calls(bb, "rvesting/keeper.(Keeper).GetRemainingCoin") {
			readBlock = cs.Ins.Block()
		}
		ok, found := false, false
		for _, i := range fa.ifs {
			if x.E(i.Cond).String() == m.X("cosmos-sdk/types.(Coin).IsZero({REM})") {
				found = true
				ok = readBlock != nil && fa.reachFrom(i.Block().Succs[0])[readBlock.Index]
			}
		}
		c.Req(found && ok, "C20/empty-pool-skips-only-that-denomination", funcName(bb), bb.Pos(), "zero-balance edge re-enters the loop", "the zero-balance branch leaves the loop (or is missing): once one pool is empty no later denomination vests")
	}

	c.Rule("C20/parameter-binding", "rvesting ParamSetPairs: each key is bound to its own field, and PerBlockReward is validated by validatePerBlockReward itself on every parameter change", 3)
	paramSetPairsRule(c, "C20/parameter-binding", "x/rvesting/types.Params.ParamSetPairs", map[string]string{"PerBlockReward": "fn:rvesting/types.validatePerBlockReward"})

	c.Rule("C20/keeper", "SendVestedCoins is exactly one module-to-module transfer from the rvesting pool to the configured collector; GetRemainingCoin reads the pool account's balance; the collector is wired to the fee collector; rvesting runs before distribution", 5)
	c.Spec("C20/keeper", Macros{}, FnSpec{Fn: "x/rvesting/keeper.Keeper.SendVestedCoins",
		Effects: []Eff{{Label: "transfer", Callee: "iface:rvesting/types.BankKeeper.SendCoinsFromModuleToModule", N: 1, Args: map[int]string{1: "$1", 2: "\"rvesting\"", 3: "$0.feeCollectorName", 4: "$2"}}},
		Returns: []Ret{{Label: "err", Index: 0, Want: []string{"iface:rvesting/types.BankKeeper.SendCoinsFromModuleToModule($0.bankKeeper, $1, \"rvesting\", $0.feeCollectorName, $2)"}}},
	})
	c.Spec("C20/keeper", Macros{}, FnSpec{Fn: "x/rvesting/keeper.Keeper.GetRemainingCoin",
		Returns: []Ret{{Label: "balance", Index: 0, Want: []string{"iface:rvesting/types.BankKeeper.GetBalance($0.bankKeeper, $1, iface:rvesting/types.AccountKeeper.GetModuleAddress($0.accountKeeper, \"rvesting\"), $2)"}}},
	})
	app := c.F("app.NewTeleport")
	for _, cs := range c.Calls(app, "rvesting/keeper.NewKeeper") {
		a := c.P.ArgExprs(cs)
		c.Req(len(a) == 4 && a[3].String() == `"fee_collector"`, "C20/keeper", "app wiring: collector is the fee collector", cs.Ins.Pos(), a[3].String(), "rvesting keeper is wired to send to "+a[3].String())
	}
	for _, cs := range c.Calls(app, "types/module.(*Manager).SetOrderBeginBlockers") {
		a := c.P.ArgExprs(cs)
		s := a[1].String()
		i, j := strings.Index(s, `"rvesting"`), strings.Index(s, `"distribution"`)
		c.Req(i >= 0 && j >= 0 && i < j, "C20/keeper", "app wiring: rvesting BeginBlock precedes distribution", cs.Ins.Pos(), "", "rvesting is not ordered before distribution in SetOrderBeginBlockers")
	}

	c.Rule("C20/keeper-holds-no-state", "the rvesting keeper consists of wiring only: parameters are read from the params store in every block, never from process memory (a governance parameter change takes effect in the next block on every node)", 4)
	keeperFieldsRule(c, "C20/keeper-holds-no-state", func(p string) bool { return strings.Contains(p, "/x/rvesting/") })
	c.Rule("C20/no-other-money-movement", "the rvesting packages move coins only through SendVestedCoins (per block) and the one-off genesis funding; no mint, burn or other transfer", 3)
	allowed := map[string]string{"SendCoinsFromModuleToModule": "rvesting/keeper.(Keeper).SendVestedCoins", "SendCoinsFromAccountToModule": "rvesting/keeper.(Keeper).InitGenesis", "GetBalance": "rvesting/keeper.(Keeper).GetRemainingCoin"}
	n := 0
	for fn := range c.P.AllFuncs {
		if !inScope(fn) || len(fn.Blocks) == 0 || !strings.Contains(fnPkgPath(fn), "/x/rvesting") {
			continue
		}
		for _, cs := range c.P.CallsInOwn(fn) {
			if !strings.Contains(cs.Name, "BankKeeper.") {
				continue
			}
			n++
			meth := cs.Name[strings.LastIndex(cs.Name, ".")+1:]
			if (strings.HasPrefix(meth, "Get") || strings.HasPrefix(meth, "Has")) && allowed[meth] == "" {
				c.Ok("C20/no-other-money-movement", funcName(fn)+" calls bank."+meth, cs.Ins.Pos(), "read-only")
				continue
			}
			own := c.P.Owners(fn)
			c.Req(len(own) == 1 && allowed[meth] == own[0], "C20/no-other-money-movement", funcName(fn)+" calls bank."+meth, cs.Ins.Pos(), "", fmt.Sprintf("rvesting calls bank.%s from %s", meth, funcName(fn)))
		}
	}

	c.Rule("C20/unique-denominations", "min-per-denomination requires each denomination once: the parameter validator rejects duplicates, empty denominations and negative amounts", 3)
	c.Spec("C20/unique-denominations", Macros{"E": "$0.(cosmos-sdk/types.Coins)#0[μ{0}]"}, FnSpec{Fn: "x/rvesting/types.validatePerBlockReward", Guards: []G{
		{"duplicate", "reject has(make(set[string]), {E}.Denom)"},
		{"empty-denom", "reject (0 == len({E}.Denom))"},
		{"negative", "reject cosmos-sdk/types.(Coin).IsNegative({E})"},
	}})
}
