package main

import (
	"fmt"
	"go/token"
	"go/types"
	"sort"
	"strings"

	"golang.org/x/tools/go/ssa"
)

func init() { register("C18", c18) }

const clKeeper = "x/xibc/core/client/keeper."

func c18(c *Check) {
	c.Declined = []string{
		"'proofs at the installed height verify once the delay has passed' as behaviour (needs the verification libraries and runtime state)",
		"atomicity of a failed proposal (gov cache context, trusted)",
		"histories of lifecycle proposals over all ordered pairs of client types",
	}
	c.Trusted = []string{"cosmos-sdk gov EndBlocker runs the handler in a cache context dropped on error", "go/ssa"}
	m := Macros{
		"STORE": "client/keeper.(Keeper).ClientStore($0, $1, $2)",
		"OLD":   "client/keeper.(Keeper).GetClientState($0, $1, $2)",
		"LH":    "iface:xibc/exported.ClientState.GetLatestHeight($3)",
	}

	c.Rule("C18/installed-is-initialised", "create/toggle: Initialize is invoked on the very client state that is installed (the proposal's), on that chain's client store, with the proposal's consensus state; upgrade: UpgradeState likewise; the consensus state is stored at the new client's latest height; errors propagate", 20)
	c.Spec("C18/installed-is-initialised", m, FnSpec{Fn: clKeeper + "Keeper.CreateClient", Effects: []Eff{
		{Label: "Initialize", Callee: "iface:xibc/exported.ClientState.Initialize", N: 1, Args: map[int]string{0: "$3", 1: "$1", 3: "{STORE}", 4: "$4"}, Err: true},
		{Label: "SetClientState", Callee: "keeper.(Keeper).SetClientState", N: 1, Args: map[int]string{1: "$1", 2: "$2", 3: "$3"}},
		{Label: "SetClientConsensusState", Callee: "keeper.(Keeper).SetClientConsensusState", N: 1, Args: map[int]string{1: "$1", 2: "$2", 3: "{LH}", 4: "$4"}},
	}})
	c.Spec("C18/installed-is-initialised", m, FnSpec{Fn: clKeeper + "Keeper.ToggleClient", Effects: []Eff{
		{Label: "Initialize", Callee: "iface:xibc/exported.ClientState.Initialize", N: 1, Args: map[int]string{0: "$3", 1: "$1", 3: "{STORE}", 4: "$4"}, Err: true},
		{Label: "SetClientState", Callee: "keeper.(Keeper).SetClientState", N: 1, Args: map[int]string{1: "$1", 2: "$2", 3: "$3"}},
		{Label: "SetClientConsensusState", Callee: "keeper.(Keeper).SetClientConsensusState", N: 1, Args: map[int]string{1: "$1", 2: "$2", 3: "{LH}", 4: "$4"}},
	}})
	up := "iface:xibc/exported.ClientState.UpgradeState($3, $1, $0.cdc, {STORE}, $4)"
	c.Spec("C18/installed-is-initialised", m, FnSpec{Fn: clKeeper + "Keeper.UpgradeClient", Effects: []Eff{
		{Label: "UpgradeState", Callee: "iface:xibc/exported.ClientState.UpgradeState", N: 1, Args: map[int]string{0: "$3", 1: "$1", 3: "{STORE}", 4: "$4"}, Err: true},
		{Label: "SetClientState", Callee: "keeper.(Keeper).SetClientState", N: 1, Args: map[int]string{1: "$1", 2: "$2", 3: "$3"}, Under: []string{errNil(up)}},
		{Label: "SetClientConsensusState", Callee: "keeper.(Keeper).SetClientConsensusState", N: 1, Args: map[int]string{1: "$1", 2: "$2", 3: "{LH}", 4: "$4"}, Under: []string{errNil(up)}},
	}})

	c.Rule("C18/proofs-verify-once-the-delay-passed", "frozen tables (shared with C07 / C08): the packet verifiers of every client type reject on the delay exactly while the delay has not passed (strict comparison for the block delay, processed time + period for tendermint), so that a proof at the installed height verifies as soon as it has", 12)
	isVerifier := func(fn string) bool {
		return strings.HasSuffix(fn, "ClientState.VerifyPacketCommitment") || strings.HasSuffix(fn, "ClientState.VerifyPacketAcknowledgement") || strings.HasSuffix(fn, "types.verifyDelayPeriodPassed")
	}
	c.FrozenFiltered("C07", "C18/proofs-verify-once-the-delay-passed", isVerifier)
	c.FrozenFiltered("C08", "C18/proofs-verify-once-the-delay-passed", isVerifier)
	c.Rule("C18/consensus-state-skipped-only-for-tss", "create / upgrade / toggle store the installed consensus state under exactly the conditions under which they store the client state, with one exception: CreateClient skips it when the consensus state's type is TSS — and under no other condition (a client installed at height 0 still gets its consensus state)", 3)
	consStateSkippedOnlyForTSS(c, "C18/consensus-state-skipped-only-for-tss")
	c.Rule("C18/type-and-existence-guards", "create rejects an existing chain name; upgrade rejects unknown client and differing type; toggle rejects unknown client and equal type; all before any write; the three proposals' ValidateBasic validate the chain name and the client state", 16)
	c.Spec("C18/type-and-existence-guards", m, FnSpec{Fn: clKeeper + "Keeper.UpgradeClient",
		Guards:  []G{{"not-found", "reject !{OLD}#1"}, {"type-differs", "reject (iface:xibc/exported.ClientState.ClientType($3) != iface:xibc/exported.ClientState.ClientType({OLD}#0))"}},
		Effects: []Eff{{Label: "write-after-guards", Callee: "keeper.(Keeper).SetClientState", N: 1, Under: []string{"{OLD}#1", "(iface:xibc/exported.ClientState.ClientType($3) == iface:xibc/exported.ClientState.ClientType({OLD}#0))"}}},
	})
	c.Spec("C18/type-and-existence-guards", m, FnSpec{Fn: clKeeper + "Keeper.ToggleClient",
		Guards:  []G{{"not-found", "reject !{OLD}#1"}, {"type-equal", "reject (iface:xibc/exported.ClientState.ClientType($3) == iface:xibc/exported.ClientState.ClientType({OLD}#0))"}},
		Effects: []Eff{{Label: "write-after-guards", Callee: "keeper.(Keeper).SetClientState", N: 1, Under: []string{"{OLD}#1", "(iface:xibc/exported.ClientState.ClientType($3) != iface:xibc/exported.ClientState.ClientType({OLD}#0))"}}},
	})
	hm := Macros{"HAS": "client/keeper.(Keeper).GetClientState($0, $1, $2.ChainName)#1",
		"CS": "client/types.UnpackClientState($2.ClientState)", "CONS": "client/types.UnpackConsensusState($2.ConsensusState)"}
	c.Spec("C18/type-and-existence-guards", hm, FnSpec{Fn: clKeeper + "Keeper.HandleCreateClient",
		Guards:  []G{{"exists", "reject {HAS}"}, {"unpack-client", "reject ({CS}#1 != nil)"}, {"unpack-consensus", "reject ({CONS}#1 != nil)"}},
		Effects: []Eff{{Label: "CreateClient", Callee: "keeper.(Keeper).CreateClient", N: 1, Args: map[int]string{1: "$1", 2: "$2.ChainName", 3: "{CS}#0", 4: "{CONS}#0"}, Under: []string{"!{HAS}"}, Err: true}},
	})
	c.Spec("C18/type-and-existence-guards", hm, FnSpec{Fn: clKeeper + "Keeper.HandleUpgradeClient",
		Effects: []Eff{{Label: "UpgradeClient", Callee: "keeper.(Keeper).UpgradeClient", N: 1, Args: map[int]string{1: "$1", 2: "$2.ChainName", 3: "{CS}#0", 4: "{CONS}#0"}, Err: true}},
	})
	c.Spec("C18/type-and-existence-guards", hm, FnSpec{Fn: clKeeper + "Keeper.HandleToggleClient",
		Guards:  []G{{"not-found", "reject !{HAS}"}},
		Effects: []Eff{{Label: "ToggleClient", Callee: "keeper.(Keeper).ToggleClient", N: 1, Args: map[int]string{1: "$1", 2: "$2.ChainName", 3: "{CS}#0", 4: "{CONS}#0"}, Under: []string{"{HAS}"}, Err: true}},
	})
	for _, t := range []string{"CreateClientProposal", "UpgradeClientProposal", "ToggleClientProposal"} {
		c.Spec("C18/type-and-existence-guards", Macros{}, FnSpec{Fn: "x/xibc/core/client/types." + t + ".ValidateBasic",
			Guards:  []G{{"chain-name", "reject (core/host.ClientIdentifierValidator($0.ChainName) != nil)"}, {"unpack", "reject (client/types.UnpackClientState($0.ClientState)#1 != nil)"}},
			Returns: []Ret{{Label: "validate", Index: 0, Want: []string{"iface:xibc/exported.ClientState.Validate(client/types.UnpackClientState($0.ClientState)#0)"}}},
		})
	}
	c.WhoMayCall("C18/type-and-existence-guards", c.F(clKeeper+"Keeper.CreateClient"), "keeper.(Keeper).HandleCreateClient")
	c.WhoMayCall("C18/type-and-existence-guards", c.F(clKeeper+"Keeper.UpgradeClient"), "keeper.(Keeper).HandleUpgradeClient")
	c.WhoMayCall("C18/type-and-existence-guards", c.F(clKeeper+"Keeper.ToggleClient"), "keeper.(Keeper).HandleToggleClient")

	c.Rule("C18/update-client", "UpdateClient: unknown client and non-active status reject before CheckHeaderAndUpdateState; status and update use the same chain's store; the returned client state is stored under the same chain; the consensus state at header.GetHeight()", 8)
	um := Macros{"CS": "client/keeper.(Keeper).GetClientState($0, $1, $2)", "ST": "client/keeper.(Keeper).ClientStore($0, $1, $2)",
		"STATUS": "iface:xibc/exported.ClientState.Status({CS}#0, $1, {ST}, $0.cdc)",
		"UPD":    "iface:xibc/exported.ClientState.CheckHeaderAndUpdateState({CS}#0, $1, $0.cdc, {ST}, $3)"}
	c.Spec("C18/update-client", um, FnSpec{Fn: clKeeper + "Keeper.UpdateClient",
		Guards: []G{{"not-found", "reject !{CS}#1"}, {"not-active", "reject ({STATUS} != \"Active\")"}, {"update-error", "reject ({UPD}#2 != nil)"}},
		Effects: []Eff{
			{Label: "CheckHeaderAndUpdateState", Callee: "iface:xibc/exported.ClientState.CheckHeaderAndUpdateState", N: 1, Args: map[int]string{0: "{CS}#0", 1: "$1", 3: "{ST}", 4: "$3"}, Under: []string{"{CS}#1", "({STATUS} == \"Active\")"}},
			{Label: "SetClientState", Callee: "keeper.(Keeper).SetClientState", N: 1, Args: map[int]string{1: "$1", 2: "$2", 3: "{UPD}#0"}, Under: []string{"({UPD}#2 == nil)"}},
			{Label: "SetClientConsensusState", Callee: "keeper.(Keeper).SetClientConsensusState", N: 1, Args: map[int]string{1: "$1", 2: "$2", 3: "iface:xibc/exported.Header.GetHeight($3)", 4: "{UPD}#1"}, Under: []string{"({UPD}#2 == nil)"}},
		},
	})

	c.Rule("C18/type-specific-initialisation", "frozen table: what each client type sets up for the installed header — BSC: epoch-block check, signer recovered from and recorded at the installed header, ALL previously tracked recent signers forgotten on upgrade, pending validator set parsed from the installed header; ETH: installed header indexed and its root recorded; Tendermint (table C07): consensus-state type check and processed-time / iteration metadata at the installed height", 30)
	nfz := c.Frozen("C18")
	nfz += c.FrozenFiltered("C07", "C18/type-specific-initialisation", func(fn string) bool {
		return strings.HasSuffix(fn, "ClientState.Initialize") || strings.Contains(fn, "setConsensusMetadata")
	})
	c.Extra["frozen_entries"] = nfz

	c.Rule("C18/authorised-relayer-is-found", "frozen table (shared with C06/relayer-registry): AuthRelayer finds a registration by scanning the record's whole chain list in the order it was stored (no search that presumes an order the registry does not keep), so an update from the authorised account is not refused", 3)
	c.FrozenFiltered("C06", "C18/authorised-relayer-is-found", func(fn string) bool { return strings.HasSuffix(fn, "Keeper.AuthRelayer") })
	c.Rule("C18/stored-exactly-once", "every success path of create / upgrade / toggle / update stores the client state exactly once (a success that silently skips the store — e.g. only when the height advanced — leaves the previous client in place; TSS heights never advance)", 4)
	for _, f := range []string{"CreateClient", "UpgradeClient", "ToggleClient", "UpdateClient"} {
		fn := c.F(clKeeper + "Keeper." + f)
		paths := c.PathCounts(fn, func(cs *CallSite) bool { return strings.HasSuffix(cs.Name, "keeper.(Keeper).SetClientState") })
		ok := len(paths) > 0
		for _, p := range paths {
			if p.Count != 1 {
				ok = false
			}
		}
		c.Req(ok, "C18/stored-exactly-once", funcName(fn), fn.Pos(), fmt.Sprint(len(paths), " success path(s)"), "a success path of "+f+" does not execute SetClientState exactly once")
	}

	c.Rule("C18/nil-interface-result", "contradiction rule: an implementation of an xibc/exported interface method returns constant nil for an interface-typed result while an in-scope caller invokes a method on that result (directly or one call deep) without a nil test", 1)
	nilIfaceRule(c, "C18/nil-interface-result")
}

// nilIfaceRule implements the contradiction rule described in C18/nil-interface-result.
func nilIfaceRule(c *Check, rule string) {
	type key struct {
		method string
		idx    int
	}
	nilImpl := map[key][]*ssa.Function{}
	for fn := range c.P.AllFuncs {
		if !inScope(fn) || len(fn.Blocks) == 0 || fn.Signature.Recv() == nil {
			continue
		}
		res := fn.Signature.Results()
		for i := 0; i < res.Len(); i++ {
			t := res.At(i).Type()
			if !types.IsInterface(t) || isErrorType(t) {
				continue
			}
			for _, b := range fn.Blocks {
				if r, ok := b.Instrs[len(b.Instrs)-1].(*ssa.Return); ok {
					if cst, ok := RetVal(r, i).(*ssa.Const); ok && cst.IsNil() {
						// only definite-nil on a non-rejecting return matters
						if c.P.FA(fn).exit[b.Index] != "reject" {
							nilImpl[key{fn.Name(), i}] = append(nilImpl[key{fn.Name(), i}], fn)
						}
					}
				}
			}
		}
	}
	n := 0
	for fn := range c.P.AllFuncs {
		if !inScope(fn) || len(fn.Blocks) == 0 {
			continue
		}
		fa := c.P.FA(fn)
		for _, cs := range c.P.CallsInOwn(fn) {
			cc := cs.Ins.Common()
			if !cc.IsInvoke() {
				continue
			}
			call, ok := cs.Ins.(*ssa.Call)
			if !ok {
				continue
			}
			it, _ := cc.Value.Type().Underlying().(*types.Interface)
			res := cc.Signature().Results()
			for i := 0; i < res.Len(); i++ {
				impls := nilImpl[key{cc.Method.Name(), i}]
				var hit *ssa.Function
				for _, im := range impls {
					rt := im.Signature.Recv().Type()
					if it != nil && (types.Implements(rt, it) || types.Implements(types.NewPointer(rt), it)) {
						hit = im
					}
				}
				if hit == nil {
					continue
				}
				var val ssa.Value = call
				if res.Len() > 1 {
					val = nil
					for _, r := range *call.Referrers() {
						if ex, ok := r.(*ssa.Extract); ok && ex.Index == i {
							val = ex
						}
					}
					if val == nil {
						continue
					}
				}
				n++
				uses := derefUses(c.P, val, 0)
				if len(uses) == 0 {
					c.Ok(rule, fmt.Sprintf("%s: %s result #%d (nil from %s) is never dereferenced", funcName(fn), cs.Name, i, funcName(hit)), cs.Ins.Pos(), "no method invoked on the possibly-nil result")
				}
				for _, use := range uses {
					guard := "(" + fa.X.E(val).String() + " != nil)"
					useBlock := use.at.Block()
					safe := use.inCallee == nil && fa.PathCondStrings(useBlock)[guard]
					if use.inCallee != nil {
						safe = use.guarded
						if fa.PathCondStrings(use.callSite.Block())[guard] {
							safe = true
						}
					}
					construct := fmt.Sprintf("%s: %s result used by %s", funcName(fn), cs.Name, use.what)
					c.Req(safe, rule, construct, use.pos(), "nil-tested before use", fmt.Sprintf("%s returns nil for this result, but %s invokes %s on it without a nil test", funcName(hit), funcName(fn), use.what))
				}
			}
		}
	}
	c.Extra["nil_iface_call_sites_examined"] = n
}

type derefUse struct {
	at       ssa.Instruction
	what     string
	inCallee *ssa.Function
	callSite ssa.Instruction
	guarded  bool
}

func (d derefUse) pos() token.Pos { return d.at.Pos() }

// derefUses lists places where v is the receiver of an interface method call, following MakeInterface/ChangeInterface/Phi
// and (depth 1) passing v as an argument to an in-repo function whose parameter is so used.
func derefUses(p *Program, v ssa.Value, depth int) []derefUse {
	var out []derefUse
	refs := v.Referrers()
	if refs == nil {
		return nil
	}
	for _, r := range *refs {
		switch r := r.(type) {
		case ssa.CallInstruction:
			cc := r.Common()
			if cc.IsInvoke() && cc.Value == v {
				out = append(out, derefUse{at: r, what: "." + cc.Method.Name() + "()"})
				continue
			}
			if depth == 0 {
				if callee := p.resolveCallee(cc); callee != nil && inTeleport(callee) && len(callee.Blocks) > 0 {
					for ai, a := range cc.Args {
						if a != v || ai >= len(callee.Params) {
							continue
						}
						prm := callee.Params[ai]
						cfa := p.FA(callee)
						for _, u := range derefUses(p, prm, 1) {
							g := "(" + cfa.X.E(prm).String() + " != nil)"
							out = append(out, derefUse{at: u.at, what: funcName(callee) + " → " + u.what, inCallee: callee, callSite: r, guarded: cfa.PathCondStrings(u.at.Block())[g]})
						}
					}
				}
			}
		case *ssa.ChangeInterface:
			out = append(out, derefUses(p, r, depth)...)
		case *ssa.Phi:
			// not followed (would need path sensitivity)
		}
	}
	return out
}

// consStateSkippedOnlyForTSS: see C18/consensus-state-skipped-only-for-tss (also armed for C13: a TSS client must not get
// a consensus state at height zero, which the module's own genesis validation rejects after export).
func consStateSkippedOnlyForTSS(c *Check, rule string) {
	for _, f := range []string{"CreateClient", "UpgradeClient", "ToggleClient"} {
		fn := c.F(clKeeper + "Keeper." + f)
		fa := c.P.FA(fn)
		scs := c.Calls(fn, "keeper.(Keeper).SetClientState")
		ccs := c.Calls(fn, "keeper.(Keeper).SetClientConsensusState")
		if len(scs) != 1 || len(ccs) != 1 {
			c.Bad(rule, funcName(fn), fn.Pos(), "expected one SetClientState and one SetClientConsensusState site")
			continue
		}
		base := fa.PathCondStrings(scs[0].Ins.Block())
		for _, sc := range fa.SuccessConds() { // what every successful end of the function has established anyway
			base[sc.String()] = true
		}
		var extra []string
		for s := range fa.PathCondStrings(ccs[0].Ins.Block()) {
			if !base[s] && !(f == "CreateClient" && s == `(iface:xibc/exported.ConsensusState.ClientType($4) != "tss")`) {
				extra = append(extra, s)
			}
		}
		sort.Strings(extra)
		c.Req(len(extra) == 0, rule, funcName(fn), ccs[0].Ins.Pos(), "", "the consensus state is stored only under the additional condition(s) "+strings.Join(extra, " ; ")+": a client for which they do not hold is installed without its consensus state (Status Unknown, every update rejected)")
	}
}
