package main

import (
	"fmt"
	"go/types"
	"regexp"
	"sort"
	"strings"

	"golang.org/x/tools/go/ssa"
)

func init() { register("C19", c19) }

const pkT = "x/xibc/core/packet/types."

// abiToCamel replicates go-ethereum's abi.ToCamelCase (component name -> Go field name used when packing).
func abiToCamel(s string) string {
	parts := strings.Split(s, "_")
	for i, p := range parts {
		if len(p) > 0 {
			parts[i] = strings.ToUpper(p[:1]) + p[1:]
		}
	}
	return strings.Join(parts, "")
}

type tupleComp struct{ Name, Type string }

// tupleTables extracts, from the package initialisers, the component list of every abi tuple stored in a global.
func tupleTables(c *Check) map[string][]tupleComp {
	out := map[string][]tupleComp{}
	pkg := c.P.Pkg("x/xibc/core/packet/types")
	for _, mem := range pkg.Members {
		fn, ok := mem.(*ssa.Function)
		if !ok || len(fn.Blocks) == 0 {
			continue
		}
		var comps []tupleComp
		found := false
		for _, cs := range c.P.CallsInOwn(fn) {
			if strings.HasSuffix(cs.Name, "accounts/abi.NewType") {
				args := c.P.ArgExprs(cs)
				if len(args) == 3 && args[0].String() == `"tuple"` && args[2].Op == "list" {
					found = true
					for _, el := range args[2].Args {
						var tc tupleComp
						for _, kv := range el.Args {
							if kv.Op == "kv" && kv.Args[0].Op == "const" {
								v := strings.Trim(kv.Args[0].Name, `"`)
								switch kv.Name {
								case "Name":
									tc.Name = v
								case "Type":
									tc.Type = v
								}
							}
						}
						comps = append(comps, tc)
					}
				}
			}
		}
		if !found {
			continue
		}
		for _, b := range fn.Blocks {
			for _, ins := range b.Instrs {
				if st, ok := ins.(*ssa.Store); ok && !c.P.IsClone(ins) {
					if g, ok := st.Addr.(*ssa.Global); ok {
						out[g.Name()] = comps
					}
				}
			}
		}
	}
	return out
}

func abiGoType(t string) string {
	switch t {
	case "string":
		return "string"
	case "bytes":
		return "[]byte"
	case "uint64":
		return "uint64"
	case "uint8":
		return "uint8"
	case "bool":
		return "bool"
	case "address":
		return "go-ethereum/common.Address"
	case "uint256":
		return "*math/big.Int"
	}
	return "?" + t
}

func c19(c *Check) {
	c.Declined = []string{
		"canonicality of go-ethereum's ABI decoder (non-minimal encodings), collision resistance of sha256",
		"value-level round trip decode(encode(v)) == v for all field values (strings that are not valid UTF-8 are rewritten by the JSON hop; outside the property's quantifier)",
		"chain names in packets are not run through the identifier validator by Packet.ValidateBasic (the property quantifies over valid chain names)",
	}
	c.Trusted = []string{"go-ethereum accounts/abi: Pack maps component name via ToCamelCase to the Go field; Unpack yields an anonymous struct whose JSON key is the component name", "encoding/json field matching: tag name, else field name, case-insensitive", "go/types struct tags"}

	c.Rule("C19/iteration-keys-read-back-whole", "the consensus-state iterators of the three light clients hand their callback the height parsed from the iterated key itself, and that parser reads both big-endian words (revision number and revision height) the key was written with", 6)
	for _, cl := range []string{"eth", "bsc", "tendermint"} {
		pk := "x/xibc/clients/light-clients/" + cl + "/types."
		it := c.F(pk + "IterateConsensusStateAscending")
		parse := cl + "/types.GetHeightFromIterationKey("
		nd := 0
		for _, cs := range c.P.CallsIn(it) {
			if !strings.HasPrefix(cs.Name, "dyn:$") {
				continue
			}
			nd++
			a := c.P.ArgExprs(cs)
			ok := len(a) >= 1 && strings.HasPrefix(a[0].String(), parse+"iface:cosmos-sdk/types.Iterator.Key(")
			got := ""
			if len(a) >= 1 {
				got = a[0].String()
			}
			c.Req(ok, "C19/iteration-keys-read-back-whole", funcName(it)+"/callback height", cs.Ins.Pos(), "height parsed from the iterated key", "the callback receives "+trunc(got)+" as height, not the height parsed from the iterated key: a stored key is read back as a height it was not written for")
		}
		c.Req(nd > 0, "C19/iteration-keys-read-back-whole", funcName(it)+"/callback site", it.Pos(), "", "no call of the callback parameter found in "+funcName(it))
		word := func(lo string) []string {
			if cl == "tendermint" {
				return []string{"encoding/binary.(bigEndian).Uint64(g:encoding/binary.BigEndian, $0[len(g:tendermint/types.KeyIterateConsensusStatePrefix):][" + lo + "])"}
			}
			return []string{"cosmos-sdk/types.BigEndianToUint64($0[16:][" + lo + "])"}
		}
		var wants []string
		for _, lo := range [][2]string{{"0:8", "8:"}, {":8", "8:"}, {"0:8", "8:16"}, {":8", "8:16"}} {
			wants = append(wants, "client/types.Height{RevisionNumber: "+word(lo[0])[0]+", RevisionHeight: "+word(lo[1])[0]+"}")
		}
		c.Spec("C19/iteration-keys-read-back-whole", Macros{}, FnSpec{Fn: pk + "GetHeightFromIterationKey",
			Returns: []Ret{{Label: "both words of the key", Index: 0, Want: wants}}})
	}
	c.Rule("C19/abi-tuple-struct", "for every (struct, ABI tuple) pair used by ABIPack/ABIDecode: each component packs from a Go field of the corresponding type (ToCamelCase(name)), decodes into a field whose JSON key equals the component name (exact or case-insensitive), and every field of the struct is covered by a component", 40)
	pkg := c.P.Pkg("x/xibc/core/packet/types")
	nPairs := abiTupleRule(c, "C19/abi-tuple-struct", "Packet", "Acknowledgement", "Result", "EventSendPacket", "TransferData", "CallData")
	c.Req(nPairs >= 11, "C19/abi-tuple-struct", "pairs examined", pkg.Func("init").Pos(), fmt.Sprint(nPairs), fmt.Sprintf("only %d (struct, tuple) pairs found", nPairs))

	c.Rule("C19/no-lossy-json-hop", "the JSON hop of the ABI decoders unmarshals straight into the typed target: no json.Unmarshal on the decode path targets interface{} / map[string]interface{} (numbers would pass through float64 and uint64 values above 2^53 would be rounded)", 5)
	{
		seen := map[*ssa.Function]bool{}
		var work []*ssa.Function
		for _, tname := range []string{"Packet", "Acknowledgement", "Result", "EventSendPacket", "TransferData", "CallData"} {
			for _, meth := range []string{"ABIDecode", "DecodeInterface"} {
				if fn := c.P.FuncOpt(pkT + tname + "." + meth); fn != nil {
					work = append(work, fn)
				}
			}
		}
		n := 0
		for len(work) > 0 {
			fn := work[len(work)-1]
			work = work[:len(work)-1]
			if seen[fn] || len(fn.Blocks) == 0 {
				continue
			}
			seen[fn] = true
			for _, cs := range c.P.CallsIn(fn) {
				if f := c.P.resolveCallee(cs.Ins.Common()); f != nil && inTeleport(f) {
					work = append(work, f)
				}
				if cs.Name != "encoding/json.Unmarshal" {
					continue
				}
				n++
				t := stripConv(cs.Ins.Common().Args[1]).Type()
				c.Req(!hasInterfaceElem(t, 0), "C19/no-lossy-json-hop", funcName(fn)+": json.Unmarshal target "+typeStr(t), cs.Ins.Pos(), "typed target", "json.Unmarshal into "+typeStr(t)+": numbers are decoded as float64, so uint64 fields above 2^53 are rounded before they reach the typed struct")
			}
		}
		c.Req(n >= 5, "C19/no-lossy-json-hop", "decode paths examined", pkg.Func("init").Pos(), fmt.Sprint(n), fmt.Sprintf("only %d json.Unmarshal calls found on the decode paths", n))
	}

	c.Rule("C19/commit-covers-packet", "CommitPacket hashes ABIPack of the whole packet; CommitAcknowledgement hashes the acknowledgement bytes", 2)
	cp := c.F(pkT + "CommitPacket")
	okCP := false
	for _, r := range c.P.RetExprs(cp, 0) {
		if strings.Contains(r.String(), "crypto/sha256.Sum256(iface:xibc/exported.PacketI.ABIPack($0)#0)") {
			okCP = true
		}
	}
	c.Req(okCP, "C19/commit-covers-packet", funcName(cp), cp.Pos(), "sha256(packet.ABIPack())", "CommitPacket no longer returns sha256 of the packet's ABI encoding")
	ca := c.F(pkT + "CommitAcknowledgement")
	okCA := false
	for _, r := range c.P.RetExprs(ca, 0) {
		if strings.Contains(r.String(), "crypto/sha256.Sum256($0)") {
			okCA = true
		}
	}
	c.Req(okCA, "C19/commit-covers-packet", funcName(ca), ca.Pos(), "sha256(ack bytes)", "CommitAcknowledgement no longer returns sha256 of the acknowledgement bytes")

	c.Rule("C19/key-shapes", "packet keys are <family>/<src>/<dst>/sequences/<seq %d> with parameters in order; path and key constructors agree; the consensus-state key is the prefix plus two fixed-width big-endian numbers (injective in the height)", 12)
	want := map[string]string{
		"PacketCommitmentKey": "commitments/⟨s:$0⟩/⟨s:$1⟩/sequences/⟨d:$2⟩", "PacketCommitmentPath": "commitments/⟨s:$0⟩/⟨s:$1⟩/sequences/⟨d:$2⟩",
		"PacketAcknowledgementKey": "acks/⟨s:$0⟩/⟨s:$1⟩/sequences/⟨d:$2⟩", "PacketAcknowledgementPath": "acks/⟨s:$0⟩/⟨s:$1⟩/sequences/⟨d:$2⟩",
		"PacketReceiptKey": "receipts/⟨s:$0⟩/⟨s:$1⟩/sequences/⟨d:$2⟩", "PacketReceiptPath": "receipts/⟨s:$0⟩/⟨s:$1⟩/sequences/⟨d:$2⟩",
		"NextSequenceSendKey": "nextSequenceSend/⟨s:$0⟩/⟨s:$1⟩", "NextSequenceSendPath": "nextSequenceSend/⟨s:$0⟩/⟨s:$1⟩",
		"ConsensusStateKey":     "consensusStates/⟨be8:iface:xibc/exported.Height.GetRevisionNumber($0)⟩⟨be8:iface:xibc/exported.Height.GetRevisionHeight($0)⟩",
		"ClientStateKey":        "clientState",
		"FullClientStateKey":    "clients/⟨s:$0⟩/clientState",
		"FullConsensusStateKey": "clients/⟨s:$0⟩/consensusStates/⟨be8:iface:xibc/exported.Height.GetRevisionNumber($1)⟩⟨be8:iface:xibc/exported.Height.GetRevisionHeight($1)⟩",
	}
	var ks []string
	for k := range want {
		ks = append(ks, k)
	}
	sort.Strings(ks)
	for _, k := range ks {
		fn := c.F("x/xibc/core/host." + k)
		got := c.P.ShapeOfFunc(fn)
		g2 := strings.ReplaceAll(got, "/⟨s:$0⟩/", "/⟨s:$0⟩/")
		c.Req(g2 == want[k], "C19/key-shapes", "host."+k, fn.Pos(), got, fmt.Sprintf("key shape of host.%s is %s, required %s", k, got, want[k]))
	}

	c.Rule("C19/prefix-free-families", "literal heads of distinct key families in one store are prefix-free (no family's keys can be mistaken for another's by a prefix iterator)", 10)
	heads := map[string]string{}
	for _, w := range c.P.StoreWrites() {
		f := w.Full(c.P)
		if strings.HasPrefix(f, "⟨const") || strings.HasPrefix(f, "⟨v") {
			continue
		}
		scope := "root"
		if strings.HasPrefix(f, "⟨store:") {
			scope = "client"
			f = normShape(f)[len("clients/⟨s⟩/"):]
		} else if strings.HasPrefix(f, "clients/⟨s:") {
			scope = "client"
			f = normShape(f)[len("clients/⟨s⟩/"):]
		}
		h := f
		if i := strings.Index(h, "⟨"); i >= 0 {
			h = h[:i]
		}
		if h == "" {
			continue
		}
		heads[scope+":"+h] = funcName(w.Fn)
	}
	var hs []string
	for h := range heads {
		hs = append(hs, h)
	}
	sort.Strings(hs)
	for _, a := range hs {
		ok := true
		clash := ""
		for _, b := range hs {
			if a == b || strings.Split(a, ":")[0] != strings.Split(b, ":")[0] {
				continue
			}
			ha, hb := strings.SplitN(a, ":", 2)[1], strings.SplitN(b, ":", 2)[1]
			// a family head that is a strict prefix of another head, unless the longer one continues the same family (a "/sub" path below it)
			if strings.HasPrefix(hb, ha) && !strings.HasPrefix(hb, strings.TrimSuffix(ha, "/")+"/") {
				ok = false
				clash = hb
			}
		}
		c.Req(ok, "C19/prefix-free-families", "head "+a, c.F("x/xibc/core/host.PacketReceiptKey").Pos(), heads[a], fmt.Sprintf("family head %q is a prefix of family head %q: a prefix iterator over the former also ranges over the latter", a, clash))
	}

	c.Rule("C19/iterator-prefix-ends-at-a-boundary", "a prefix handed to a prefix iterator ends in literal text (a separator or a family literal), never inside a chain-name component: otherwise the scan for (A, bsc) also returns the keys of (A, bsc-testnet) and they are read back as the wrong triple", 6)
	for _, rd := range c.P.StoreReads() {
		if rd.Op != "PrefixIterator" && rd.Op != "ReversePrefixIterator" {
			continue
		}
		n := normShape(rd.Full)
		if n == "" || strings.HasSuffix(n, "⟨s⟩") && strings.HasPrefix(funcName(rd.Fn), "eth/types.GetIterator") || strings.HasSuffix(n, "⟨s⟩") && strings.HasPrefix(funcName(rd.Fn), "bsc/types.GetIterator") {
			c.Ok("C19/iterator-prefix-ends-at-a-boundary", funcName(rd.Fn)+": "+n, rd.Pos, "prefix is a parameter bound to family literals at the call sites (C13/family-exported)")
			continue
		}
		endsInHole := strings.HasSuffix(n, "⟨s⟩") || strings.HasSuffix(n, "⟨s⟩") || strings.HasSuffix(n, "⟨d⟩")
		c.Req(!endsInHole, "C19/iterator-prefix-ends-at-a-boundary", funcName(rd.Fn)+": "+n, rd.Pos, "ends in literal text", "iterator prefix "+n+" ends inside a variable component: keys of any longer name with that prefix are scanned too")
	}

	c.Rule("C19/identifier-charset", "the identifier validator's character class excludes the key separator '/', and chain names entering through proposals pass that validator", 4)
	hostPkg := c.P.Pkg("x/xibc/core/host")
	init := hostPkg.Func("init")
	reOK := false
	for _, cs := range c.P.CallsIn(init) {
		if cs.Name == "regexp.MustCompile" {
			a := c.P.ArgExprs(cs)[0]
			if a.Op == "const" {
				var src string
				fmt.Sscanf(a.Name, "%q", &src)
				if re, err := regexp.Compile(src); err == nil && strings.HasPrefix(src, "^[") && strings.HasSuffix(src, "]+$") {
					ok := !re.MatchString("a/b") && !re.MatchString("/") && re.MatchString("abc-1")
					c.Req(ok, "C19/identifier-charset", "host.IsValidID regexp", cs.Ins.Pos(), src, "identifier regexp "+src+" admits '/'")
					reOK = true
				}
			}
		}
	}
	c.Req(reOK, "C19/identifier-charset", "host.IsValidID regexp found", init.Pos(), "", "identifier regexp constant not found in host package initialiser")
	c.Spec("C19/identifier-charset", Macros{}, FnSpec{Fn: "x/xibc/core/host.defaultIdentifierValidator", Guards: []G{{"charset", "reject !dyn:g:core/host.IsValidID($0)"}, {"no-slash", "reject strings.Contains($0, \"/\")"}}})

	c.Rule("C19/decimal-sequence-parsed-back", "the decimal sequence component of packet keys is parsed back with ParseUint(…,10,64) and the parse error is not ignored", 1)
	ih := c.F(pkKeeper + "Keeper.iterateHashes")
	okParse := false
	for _, cs := range c.P.CallsIn(ih) {
		if cs.Name == "strconv.ParseUint" {
			a := c.P.ArgExprs(cs)
			okParse = a[1].String() == "10" && a[2].String() == "64"
		}
	}
	c.Req(okParse, "C19/decimal-sequence-parsed-back", funcName(ih), ih.Pos(), "ParseUint(last,10,64)", "iterateHashes no longer parses the sequence with base 10 / 64 bits")

	c.Rule("C19/reader-tokenisation", "readers that split keys on '/' do not range over families with binary components (shared with C13)", 2)
	fams := map[string][]*StoreWrite{}
	for _, w := range c.P.StoreWrites() {
		if w.Op == "Set" {
			f := normShape(w.Full(c.P))
			fams[f] = append(fams[f], w)
		}
	}
	tokenisationRule(c, "C19/reader-tokenisation", fams)
}

// hasInterfaceElem: t (through pointers, maps, slices, arrays) contains an interface-typed element.
func hasInterfaceElem(t types.Type, d int) bool {
	if d > 6 {
		return false
	}
	switch u := t.Underlying().(type) {
	case *types.Interface:
		return true
	case *types.Pointer:
		// a pointer to a named struct is a typed target
		if _, isStruct := u.Elem().Underlying().(*types.Struct); isStruct {
			return false
		}
		return hasInterfaceElem(u.Elem(), d+1)
	case *types.Map:
		return hasInterfaceElem(u.Elem(), d+1)
	case *types.Slice:
		return hasInterfaceElem(u.Elem(), d+1)
	case *types.Array:
		return hasInterfaceElem(u.Elem(), d+1)
	}
	return false
}
