package main

import (
	"fmt"
	"strings"
)

func init() { register("C07", c07) }

func c07(c *Check) {
	c.Declined = []string{
		"everything inside tendermint light.Verify (trust-level arithmetic, two-thirds of the header's own set, clock-drift and trusting-period formulae): third-party, trusted",
		"history properties of forward / skipping / back-filling update orders",
		"cryptographic soundness of validator-set hashing and signatures",
	}
	c.Trusted = []string{"github.com/tendermint/tendermint/light.Verify", "ICS-23 membership verification", "go/ssa"}
	c.Assume = []string{"guards and bindings were selected by source position when the table was frozen (xlint/picks/C07.txt) and are compared in canonical form; they are necessary conditions of 'accepts only if …'"}
	c.Rule("C07/guards", "frozen table: every rejecting check of the tendermint client's update and proof paths (trusted validator-set hash vs stored next-validators hash, same revision, newer than trusted height, light.Verify with the trusted header rebuilt from the stored consensus state / stored trusting period / ctx.BlockTime(), consensus state fetched at the header's trusted height and at the proof height, latest height only ever raised, consensus state = header time/app hash/next validators hash, metadata at the header height with block time, proof height <= latest, delay elapsed since processed time, status expired iff latest consensus state expired) is present with the same operands, and each effect is dominated by them", 50)
	n := c.Frozen("C07")
	c.Extra["frozen_entries"] = n

	c.Rule("C07/processing-time-on-every-accept", "every successful path of the tendermint update records the processing time of the header's height exactly once (setConsensusMetadata): the delay period of a height always counts from the block in which the consensus state now stored for it was accepted", 1)
	{
		upd := c.F(tmT + "update")
		paths := c.PathCounts(upd, func(cs *CallSite) bool { return strings.HasSuffix(cs.Name, "types.setConsensusMetadata") })
		ok := len(paths) > 0
		for _, p := range paths {
			if p.Count != 1 {
				ok = false
			}
		}
		c.Req(ok, "C07/processing-time-on-every-accept", funcName(upd), upd.Pos(), fmt.Sprint(len(paths), " success path(s)"), "a success path of the tendermint update does not record the processing time exactly once: a consensus state can be replaced while the old processing time keeps counting (proofs honoured before the delay since the new state was accepted)")
	}
	c.Rule("C07/nothing-before-validity", "tendermint CheckHeaderAndUpdateState prunes and updates only after checkValidity accepted the header", 1)
	nothingBeforeValidity(c, "C07/nothing-before-validity", tmT+"ClientState.CheckHeaderAndUpdateState")
	c.Rule("C07/keeper-gate", "client keeper UpdateClient: a non-active (expired/unknown) client rejects before CheckHeaderAndUpdateState (shared with C18/update-client)", 3)
	um := Macros{"CS": "client/keeper.(Keeper).GetClientState($0, $1, $2)", "ST": "client/keeper.(Keeper).ClientStore($0, $1, $2)",
		"STATUS": "iface:xibc/exported.ClientState.Status({CS}#0, $1, {ST}, $0.cdc)"}
	c.Spec("C07/keeper-gate", um, FnSpec{Fn: clKeeper + "Keeper.UpdateClient",
		Guards:  []G{{"not-active", "reject ({STATUS} != \"Active\")"}},
		Effects: []Eff{{Label: "update-after-status", Callee: "iface:xibc/exported.ClientState.CheckHeaderAndUpdateState", N: 1, Under: []string{"({STATUS} == \"Active\")"}}},
	})
	c.Rule("C07/msg-validate", "MsgUpdateClient.ValidateBasic validates the header; Header.ValidateBasic keeps its validator-set-hash and trusted-height checks", 3)
	c.Spec("C07/msg-validate", Macros{}, FnSpec{Fn: tmT + "Header.ValidateBasic", Guards: []G{
		{"valset-hash", "reject ($0.SignedHeader.Header.ValidatorsHash != tendermint/types.(*ValidatorSet).Hash(tendermint/types.ValidatorSetFromProto($0.ValidatorSet)#0))"},
		{"trusted-height-not-above", "reject (tendermint/types.(Header).GetHeight($0) <H $0.TrustedHeight)"},
	}})
	c.Spec("C07/msg-validate", Macros{}, FnSpec{Fn: "x/xibc/core/client/types.MsgUpdateClient.ValidateBasic", Guards: []G{
		{"header-validate", "reject (iface:xibc/exported.Header.ValidateBasic(client/types.UnpackHeader($0.Header)#0) != nil)"},
	}})
}
