package main

import (
	"fmt"
	"go/constant"
	"strings"

	"golang.org/x/tools/go/ssa"
)

func init() { register("C17", c17) }

func c17(c *Check) {
	c.Declined = []string{
		"that the Staking / Gov contracts emit msg.sender as the delegator / voter (Solidity source is present but no Solidity analyser is; read manually, stated as assumption)",
		"nested-call behaviour inside the EVM and supply arithmetic of the bank module",
		"log.Topics[0] without a length check (inside transaction recovery; the system contracts emit no anonymous events)",
	}
	c.Trusted = []string{"ethermint reverts the EVM transaction when a post-transaction hook returns an error", "cosmos-sdk MsgServiceRouter", "syscontracts.ParseLog (go-ethereum abi event unpacking)", "go/ssa"}
	c.Assume = []string{"the system contracts emit the caller (msg.sender) in the Delegator / Voter event field", "guards and bindings were selected by source position at freeze time (xlint/picks/C17.txt)"}
	c.Rule("C17/native-failure-fails-the-module-call", "CallEVMWithData (the path on which a received packet's call data reaches the staking / gov contracts): an error of the post-transaction hooks — a failing native action — cannot reach a success return without the res.Failed() test, so the callback's EVM state is dropped with it", 3)
	evmHookRule(c, "C17/native-failure-fails-the-module-call")
	c.Rule("C17/module-call-runs-on-the-cache-context", "the callback of a received packet (which may reach the staking / gov contracts) runs on the cache context that is dropped when it fails: a failing native action leaves no contract-visible state behind on the cross-chain path either", 1)
	for _, cs := range c.Calls(c.F(xibcK+"Keeper.RecvPacket"), "keeper.(Keeper).CallPacket") {
		c.ArgIs(cs, "C17/module-call-runs-on-the-cache-context", "onRecvPacket.ctx", msM, 1, "{CC}#0")
	}
	c.Rule("C17/hooks", "frozen table: both adapters dispatch a log to a handler only under bytes.Equal(log.Address, <system contract address>) and return the handler's error", 4)
	c.Rule("C17/handlers", "frozen table: every handler parses its own event, builds the message only from that event's fields (delegator / voter from the event, bond denom from the staking keeper) and returns ExecuteMsg's result; parse and encoding errors are returned", 24)
	c.Rule("C17/execute", "frozen table: ExecuteMsg validates the message, requires a routed handler and returns the handler's error", 3)
	c.Rule("C17/burn-redirect", "frozen table: OverwriteBankKeeper.BurnCoins is a single transfer to the fee collector", 1)
	n := c.Frozen("C17")
	c.Extra["frozen_entries"] = n
	c.Rule("C17/every-log", "both adapters reach a successful end only after the loop over the receipt's logs: every staking / governance event of a transaction is executed, not only the first", 2)
	allLogsProcessed(c, "C17/every-log", "adapter/staking.HookAdapter.PostTxProcessing")
	allLogsProcessed(c, "C17/every-log", "adapter/gov.HookAdapter.PostTxProcessing")

	c.Rule("C17/registration", "each adapter's contract address is the matching syscontracts constant; every event name of the switch is registered to the handler that parses exactly that event name; unknown event names panic at construction; one ExecuteMsg per handler", 16)
	for _, ad := range []struct{ pkg, field, addrConst string }{
		{"adapter/staking", "stakingContract", "StakingContractAddress"}, {"adapter/gov", "govContract", "GovContractAddress"},
	} {
		ctor := c.F(ad.pkg + ".NewHookAdapter")
		x := c.P.Ex(ctor)
		// address field
		addrOK := false
		var constVal string
		if g := c.P.Pkg("syscontracts").Members[ad.addrConst]; g != nil {
			if nc, ok := g.(*ssa.NamedConst); ok {
				constVal = nc.Value.Value.ExactString()
			}
		}
		for _, b := range ctor.Blocks {
			for _, ins := range b.Instrs {
				if st, ok := ins.(*ssa.Store); ok {
					if fa, ok := st.Addr.(*ssa.FieldAddr); ok && derefStruct(fa.X.Type()).Field(fa.Field).Name() == ad.field {
						v := x.E(st.Val).String()
						addrOK = constVal != "" && v == "go-ethereum/common.HexToAddress("+constVal+")"
					}
				}
			}
		}
		c.Req(addrOK, "C17/registration", ad.pkg+" contract address", ctor.Pos(), ad.addrConst, "adapter's contract address field is not initialised from syscontracts."+ad.addrConst)
		// registrations: MapUpdate with a bound-method closure under (name == "X")
		fa := c.P.FA(ctor)
		nreg := 0
		for _, b := range ctor.Blocks {
			for _, ins := range b.Instrs {
				mu, ok := ins.(*ssa.MapUpdate)
				if !ok {
					continue
				}
				// the registered handler: a bound-method closure, or — when the name → handler choice sits in a helper —
				// a merge of such closures, one per incoming edge, each under the conditions of its edge
				type regn struct {
					mc    *ssa.MakeClosure
					conds map[string]bool
				}
				var regs []regn
				if mc, ok := stripConv(mu.Value).(*ssa.MakeClosure); ok {
					regs = append(regs, regn{mc, fa.PathCondStrings(b)})
				} else if ph, ok := stripConv(mu.Value).(*ssa.Phi); ok {
					for i, e := range ph.Edges {
						if mc, ok := stripConv(e).(*ssa.MakeClosure); ok && i < len(ph.Block().Preds) {
							regs = append(regs, regn{mc, fa.PathCondStrings(ph.Block().Preds[i])})
						}
					}
				}
				for _, rg := range regs {
					mc := rg.mc
					h := c.P.unwrap(mc.Fn.(*ssa.Function))
					var ev string
					for cond := range rg.conds {
						if strings.Contains(cond, `== "`) && strings.Contains(cond, "next range") {
							ev = cond[strings.Index(cond, `== "`)+4:]
							ev = strings.TrimSuffix(strings.TrimSuffix(ev, ")"), `"`)
						}
					}
					if ev == "" {
						// name → handler table: the registration is a literal entry `"Voted": hook.HandleVoted` of a local
						// map that the loop over the ABI's events consults with the event's own name, storing the result
						// under that event's id
						if k, ok := mu.Key.(*ssa.Const); ok && k.Value != nil && k.Value.Kind() == constant.String && tableConsulted(mu.Map) {
							ev = constant.StringVal(k.Value)
						}
					}
					nreg++
					// the handler parses the same event name
					parsed := ""
					for _, cs := range c.Calls(h, "syscontracts.ParseLog") {
						parsed = strings.Trim(c.P.ArgExprs(cs)[3].String(), `"`)
					}
					c.Req(ev != "" && parsed == ev, "C17/registration", fmt.Sprintf("%s: event %q → %s", ad.pkg, ev, h.Name()), mu.Pos(), "parses "+parsed, fmt.Sprintf("handler %s is registered for event %q but parses event %q", h.Name(), ev, parsed))
					ex := c.Calls(h, "adapter/common.ExecuteMsg")
					c.Req(len(ex) == 1, "C17/registration", fmt.Sprintf("%s: %s executes once", ad.pkg, h.Name()), h.Pos(), "", fmt.Sprintf("%d ExecuteMsg calls in %s", len(ex), h.Name()))
				}
			}
		}
		c.Req(nreg >= 2, "C17/registration", ad.pkg+" registrations found", ctor.Pos(), fmt.Sprint(nreg), "no handler registrations found in NewHookAdapter")
		hasPanic := false
		for _, b := range ctor.Blocks {
			if _, ok := b.Instrs[len(b.Instrs)-1].(*ssa.Panic); ok && len(fa.PathCondStrings(b)) > 1 {
				hasPanic = true
			}
		}
		c.Req(hasPanic, "C17/registration", ad.pkg+" unknown event panics at construction", ctor.Pos(), "", "an unknown event name no longer panics at construction (it would be silently ignored at run time)")
	}

	c.Rule("C17/wiring", "staking and gov keepers are built on the burn-redirecting bank keeper; the EVM hooks include both adapters; OverwriteBankKeeper never calls the embedded BurnCoins", 4)
	app := c.F("app.NewTeleport")
	for _, k := range []string{"staking/keeper.NewKeeper", "gov/keeper.NewKeeper"} {
		for _, cs := range c.Calls(app, k) {
			ok := false
			for _, a := range c.P.ArgExprs(cs) {
				if a.IsCall("adapter/bank.NewOverwriteBankKeeper") {
					ok = true
				}
			}
			c.Req(ok, "C17/wiring", k+" uses OverwriteBankKeeper", cs.Ins.Pos(), "", k+" is not given the burn-redirecting bank keeper: staking/governance burns would reduce supply")
		}
	}
	for _, cs := range c.Calls(app, "evm/keeper.NewMultiEvmHooks") {
		s := c.P.ArgExprs(cs)[0].String()
		c.Req(strings.Contains(s, "adapter/staking.NewHookAdapter(") && strings.Contains(s, "adapter/gov.NewHookAdapter("), "C17/wiring", "EVM hooks include staking and gov adapters", cs.Ins.Pos(), "", "NewMultiEvmHooks does not include both adapters")
	}
	burn := c.F("adapter/bank.OverwriteBankKeeper.BurnCoins")
	for _, cs := range c.P.CallsIn(burn) {
		c.Req(!strings.HasSuffix(cs.Name, ").BurnCoins"), "C17/wiring", "BurnCoins does not call the embedded BurnCoins ("+cs.Name+")", cs.Ins.Pos(), "", "OverwriteBankKeeper.BurnCoins calls "+cs.Name)
	}
}

// tableConsulted: the map is looked up (comma-ok) with the key of a range over another map (the ABI's events by name), and
// the value found is stored into a map under a key taken from the element of that same range.
func tableConsulted(m ssa.Value) bool {
	refs := m.Referrers()
	if refs == nil {
		return false
	}
	for _, r := range *refs {
		lk, ok := r.(*ssa.Lookup)
		if !ok || !lk.CommaOk || lk.X != m {
			continue
		}
		ex, ok := lk.Index.(*ssa.Extract)
		if !ok {
			continue
		}
		nx, ok := ex.Tuple.(*ssa.Next)
		if !ok || ex.Index != 1 {
			continue
		}
		if lk.Referrers() == nil {
			continue
		}
		for _, u := range *lk.Referrers() {
			val, ok := u.(*ssa.Extract)
			if !ok || val.Index != 0 || val.Referrers() == nil {
				continue
			}
			for _, w := range *val.Referrers() {
				if st, ok := w.(*ssa.MapUpdate); ok && st.Value == ssa.Value(val) && st.Map != m && dependsOnNext(st.Key, nx, 0) {
					return true
				}
			}
		}
	}
	return false
}

func dependsOnNext(v ssa.Value, nx *ssa.Next, depth int) bool {
	if depth > 6 || v == nil {
		return false
	}
	switch t := v.(type) {
	case *ssa.Extract:
		return t.Tuple == ssa.Value(nx) || dependsOnNext(t.Tuple, nx, depth+1)
	case *ssa.Field:
		return dependsOnNext(t.X, nx, depth+1)
	case *ssa.FieldAddr:
		return dependsOnNext(t.X, nx, depth+1)
	case *ssa.UnOp:
		return dependsOnNext(t.X, nx, depth+1)
	case *ssa.Alloc:
		if t.Referrers() != nil {
			for _, r := range *t.Referrers() {
				if st, ok := r.(*ssa.Store); ok && st.Addr == ssa.Value(t) && dependsOnNext(st.Val, nx, depth+1) {
					return true
				}
			}
		}
	case *ssa.Call:
		for _, a := range t.Call.Args {
			if dependsOnNext(a, nx, depth+1) {
				return true
			}
		}
	case *ssa.Convert:
		return dependsOnNext(t.X, nx, depth+1)
	case *ssa.ChangeType:
		return dependsOnNext(t.X, nx, depth+1)
	}
	return false
}
