package main

import (
	"fmt"
	"go/token"
	"go/types"
	"sort"
	"strings"

	"golang.org/x/tools/go/ssa"
)

// Shape: symbolic structure of a byte-string / string valued expression: literals concatenated with
// typed holes ⟨verb:origin⟩. In-repo pure constructors are inlined (depth-bounded), so a key built by
// host.PacketReceiptKey(a,b,c) has shape  receipts/⟨s:a⟩/⟨s:b⟩/sequences/⟨d:c⟩.

type shapeEnv struct {
	p     *Program
	depth int
}

// RetExprs returns canonical expressions of result i over all returns of fn.
func (p *Program) RetExprs(fn *ssa.Function, i int) []*Expr {
	var out []*Expr
	x := p.Ex(fn)
	for _, b := range fn.Blocks {
		if len(b.Instrs) == 0 {
			continue
		}
		if r, ok := b.Instrs[len(b.Instrs)-1].(*ssa.Return); ok && i < len(r.Results) {
			out = append(out, x.E(RetVal(r, i)))
		}
	}
	return out
}

func (p *Program) ShapeOfFunc(fn *ssa.Function) string {
	n := len(fn.Params)
	args := make([]string, n)
	for i := range args {
		args[i] = fmt.Sprintf("⟨v:$%d⟩", i)
		if b, ok := fn.Params[i].Type().Underlying().(*types.Basic); ok && b.Info()&types.IsString != 0 {
			args[i] = fmt.Sprintf("⟨s:$%d⟩", i) // a string spliced in by concatenation is the same text as through %s
		}
	}
	return p.shapeCall(fn, args, 0)
}

func (p *Program) shapeCall(fn *ssa.Function, args []string, depth int) string {
	rets := p.RetExprs(fn, 0)
	if len(rets) == 0 {
		return "⟨?noreturn " + funcName(fn) + "⟩"
	}
	set := map[string]bool{}
	for _, r := range rets {
		set[p.shapeExpr(r, args, depth)] = true
	}
	var ss []string
	for s := range set {
		ss = append(ss, s)
	}
	sort.Strings(ss)
	if len(ss) == 1 {
		return ss[0]
	}
	return "⟨alt:" + strings.Join(ss, "‖") + "⟩"
}

// ShapeExpr computes the shape of an expression inside fn (params stay as $i of that function).
func (p *Program) ShapeExpr(e *Expr) string { return p.shapeExpr(e, nil, 0) }

func (p *Program) shapeExpr(e *Expr, args []string, depth int) string {
	sub := func(x *Expr) string { return p.shapeExpr(x, args, depth) }
	hole := func(verb string, x *Expr) string {
		s := sub(x)
		if in, ok := singleHole(s); ok {
			return "⟨" + verb + ":" + in + "⟩"
		}
		if verb == "s" || verb == "v" {
			return s // %s of a composite / literal string is the string itself
		}
		return "⟨" + verb + ":" + s + "⟩"
	}
	switch e.Op {
	case "const":
		if strings.HasPrefix(e.Name, "\"") {
			var s string
			fmt.Sscanf(e.Name, "%q", &s)
			return s
		}
		if e.Name == "nil" {
			return ""
		}
		if e.Val != nil {
			// a printable byte constant spliced into a key (append(key, '/')) is that character
			if b, ok := e.Val.Type().Underlying().(*types.Basic); ok && (b.Kind() == types.Uint8 || b.Kind() == types.Int32 || b.Kind() == types.UntypedRune) {
				var n int
				if _, err := fmt.Sscanf(e.Name, "%d", &n); err == nil && n >= 32 && n <= 126 {
					return string(rune(n))
				}
			}
		}
		return "⟨const:" + e.Name + "⟩"
	case "param":
		if args != nil {
			var i int
			if _, err := fmt.Sscanf(e.Name, "$%d", &i); err == nil && i < len(args) {
				return args[i]
			}
		}
		if e.Val != nil {
			if b, ok := e.Val.Type().Underlying().(*types.Basic); ok && b.Info()&types.IsString != 0 {
				return "⟨s:" + e.Name + "⟩"
			}
		}
		return "⟨v:" + e.Name + "⟩"
	case "global":
		if g, ok := e.Val.(*ssa.Global); ok {
			if init := p.globalInit(g); init != nil {
				return p.shapeExpr(init, nil, depth)
			}
		}
		return "⟨" + e.Name + "⟩"
	case "bin":
		if e.Name == "+" {
			return sub(e.Args[0]) + sub(e.Args[1])
		}
	case "builtin":
		if e.Name == "append" && len(e.Args) == 2 {
			return sub(e.Args[0]) + sub(e.Args[1])
		}
	case "list":
		var ss []string
		for _, a := range e.Args {
			ss = append(ss, sub(a))
		}
		return strings.Join(ss, "")
	case "zero":
		return ""
	case "phi":
		set := map[string]bool{}
		for _, a := range e.Args {
			set[sub(a)] = true
		}
		var ss []string
		for s := range set {
			ss = append(ss, s)
		}
		sort.Strings(ss)
		if len(ss) == 1 {
			return ss[0]
		}
		return "⟨alt:" + strings.Join(ss, "‖") + "⟩"
	case "call":
		switch {
		case e.Name == "fmt.Sprintf" && len(e.Args) >= 1:
			f := e.Args[0]
			if f.Op == "const" && strings.HasPrefix(f.Name, "\"") {
				var format string
				fmt.Sscanf(f.Name, "%q", &format)
				var vals []*Expr
				if len(e.Args) > 1 && e.Args[1].Op == "list" {
					vals = e.Args[1].Args
				}
				var sb strings.Builder
				vi := 0
				for i := 0; i < len(format); i++ {
					if format[i] == '%' && i+1 < len(format) {
						j := i + 1
						for j < len(format) && strings.ContainsRune("0123456789.+-# ", rune(format[j])) {
							j++
						}
						if j < len(format) {
							verb := format[i+1 : j+1]
							if verb == "%" {
								sb.WriteByte('%')
							} else if vi < len(vals) {
								sb.WriteString(hole(verb, vals[vi]))
								vi++
							} else {
								sb.WriteString("⟨" + verb + ":?missing⟩")
							}
							i = j
							continue
						}
					}
					sb.WriteByte(format[i])
				}
				return sb.String()
			}
		case strings.HasSuffix(e.Name, "cosmos-sdk/types.Uint64ToBigEndian") && len(e.Args) == 1:
			return hole("be8", e.Args[0])
		case e.Name == "strconv.Itoa" || e.Name == "strconv.FormatUint" || e.Name == "strconv.FormatInt":
			return hole("d", e.Args[0])
		}
		// inline in-repo pure constructors
		if c, ok := e.Val.(*ssa.Call); ok && depth < 6 {
			if fn := p.resolveCallee(&c.Call); fn != nil && inTeleport(fn) && len(fn.Blocks) > 0 && isStringish(fn.Signature.Results()) {
				as := make([]string, len(e.Args))
				for i, a := range e.Args {
					as[i] = sub(a)
				}
				return p.shapeCall(fn, as, depth+1)
			}
		}
		var as []string
		for _, a := range e.Args {
			s := stripHole(sub(a))
			as = append(as, s)
		}
		return "⟨v:" + e.Name + "(" + strings.Join(as, ",") + ")⟩"
	case "invoke":
		var as []string
		for _, a := range e.Args {
			s := stripHole(sub(a))
			as = append(as, s)
		}
		return "⟨v:" + e.Name + "(" + strings.Join(as, ",") + ")⟩"
	case "field":
		s := stripHole(sub(e.Args[0]))
		return "⟨v:" + s + "." + e.Name + "⟩"
	case "slice":
		return "⟨slice:" + sub(e.Args[0]) + "[" + e.Name + "]⟩"
	}
	if args != nil {
		as := make([]*Expr, len(args))
		for i, a := range args {
			as[i] = mk("param", stripHole(a), nil)
		}
		return "⟨v:" + substParams(e, as).String() + "⟩"
	}
	return "⟨v:" + e.String() + "⟩"
}

// singleHole: s is exactly one ⟨v:…⟩ hole; returns its content.
func singleHole(s string) (string, bool) {
	if !strings.HasPrefix(s, "⟨v:") && !strings.HasPrefix(s, "⟨s:") {
		return "", false
	}
	depth := 0
	rs := []rune(s)
	for i, r := range rs {
		if r == '⟨' {
			depth++
		} else if r == '⟩' {
			depth--
			if depth == 0 {
				if i == len(rs)-1 {
					return string(rs[3 : len(rs)-1]), true
				}
				return "", false
			}
		}
	}
	return "", false
}

func stripHole(s string) string {
	if in, ok := singleHole(s); ok {
		return in
	}
	return s
}

func isStringish(res *types.Tuple) bool {
	if res.Len() != 1 {
		return false
	}
	t := res.At(0).Type().Underlying()
	if b, ok := t.(*types.Basic); ok && b.Info()&types.IsString != 0 {
		return true
	}
	if s, ok := t.(*types.Slice); ok {
		if b, ok := s.Elem().Underlying().(*types.Basic); ok && b.Kind() == types.Byte {
			return true
		}
	}
	return false
}

// globalInit finds the single value stored to a package-level variable by its package initialiser.
func (p *Program) globalInit(g *ssa.Global) *Expr {
	init := g.Pkg.Func("init")
	if init == nil {
		return nil
	}
	var found *Expr
	n := 0
	for _, b := range init.Blocks {
		for _, ins := range b.Instrs {
			if st, ok := ins.(*ssa.Store); ok && st.Addr == g {
				found = p.Ex(init).E(st.Val)
				n++
			}
		}
	}
	if n == 1 {
		return found
	}
	return nil
}

// StoreWrite is one KVStore Set/Delete site in scope.
type StoreWrite struct {
	Fn    *ssa.Function
	Ins   ssa.CallInstruction
	Op    string // Set | Delete
	Store string // canonical expression of the store operand
	Key   *Expr
	Shape string
	Pos   token.Pos
}

func isKVStoreIface(t types.Type) bool {
	s := typeStr(t)
	return strings.HasSuffix(s, "types.KVStore") || strings.HasSuffix(s, "prefix.Store") || strings.HasSuffix(s, "types.CommitKVStore") || strings.HasSuffix(s, "types.CacheKVStore")
}

// StoreWrites enumerates every KVStore.Set/Delete call in state-machine scope.
func (p *Program) StoreWrites() []*StoreWrite {
	if p.storeWritesCache != nil {
		return p.storeWritesCache
	}
	var out []*StoreWrite
	for fn := range p.AllFuncs {
		if !inScope(fn) || len(fn.Blocks) == 0 {
			continue
		}
		for _, cs := range p.CallsInOwn(fn) {
			c := cs.Ins.Common()
			var op string
			var recvT types.Type
			if c.IsInvoke() {
				op = c.Method.Name()
				recvT = c.Value.Type()
			} else if f := c.StaticCallee(); f != nil && f.Signature.Recv() != nil {
				op = f.Name()
				recvT = f.Signature.Recv().Type()
			} else {
				continue
			}
			if op != "Set" && op != "Delete" {
				continue
			}
			if !isKVStoreIface(recvT) {
				continue
			}
			args := p.ArgExprs(cs)
			if len(args) < 2 {
				continue
			}
			w := &StoreWrite{Fn: fn, Ins: cs.Ins, Op: op, Store: args[0].String(), Key: args[1], Pos: cs.Ins.Pos()}
			w.Shape = p.ShapeExpr(args[1])
			out = append(out, w)
		}
	}
	sort.Slice(out, func(i, j int) bool { return p.Pos(out[i].Pos) < p.Pos(out[j].Pos) })
	p.storeWritesCache = out
	return out
}

// storePrefix computes the literal/hole prefix contributed by the store operand of a write.
func (p *Program) storePrefix(e *Expr, args []string, depth int) string {
	if e == nil || depth > 5 {
		return "⟨store:?⟩"
	}
	switch {
	case e.Op == "call" && strings.HasSuffix(e.Name, "store/prefix.NewStore") && len(e.Args) == 2:
		return p.storePrefix(e.Args[0], args, depth) + p.shapeExpr(e.Args[1], args, depth)
	case e.Op == "call" && strings.HasSuffix(e.Name, "cosmos-sdk/types.(Context).KVStore"):
		return "" // root of a module store
	case e.Op == "param":
		if args != nil {
			var i int
			if _, err := fmt.Sscanf(e.Name, "$%d", &i); err == nil && i < len(args) {
				return "⟨store:" + stripHole(args[i]) + "⟩"
			}
		}
		return "⟨store:" + e.Name + "⟩"
	case e.Op == "call":
		if c, ok := e.Val.(*ssa.Call); ok {
			if fn := p.resolveCallee(&c.Call); fn != nil && inTeleport(fn) && len(fn.Blocks) > 0 {
				as := make([]string, len(e.Args))
				for i, a := range e.Args {
					as[i] = p.shapeExpr(a, args, depth)
				}
				rets := p.RetExprs(fn, 0)
				if len(rets) == 1 {
					return p.storePrefix(rets[0], as, depth+1)
				}
			}
		}
	}
	return "⟨store:" + e.String() + "⟩"
}

// Full returns store prefix + key shape.
func (w *StoreWrite) Full(p *Program) string {
	c := w.Ins.Common()
	var storeVal ssa.Value
	if c.IsInvoke() {
		storeVal = c.Value
	} else {
		storeVal = c.Args[0]
	}
	return p.storePrefix(p.Ex(w.Fn).E(storeVal), nil, 0) + w.Shape
}

// StoreRead is one KVStore read site (Get/Has/Iterator/prefix iterator) in scope.
type StoreRead struct {
	Fn   *ssa.Function
	Ins  ssa.CallInstruction
	Op   string // Get | Has | Iterator | ReverseIterator | PrefixIterator | ReversePrefixIterator
	Full string
	Pos  token.Pos
}

func (p *Program) StoreReads() []*StoreRead {
	if p.storeReadsCache != nil {
		return p.storeReadsCache
	}
	var out []*StoreRead
	for fn := range p.AllFuncs {
		if !inScope(fn) || len(fn.Blocks) == 0 {
			continue
		}
		x := p.Ex(fn)
		absorbed := p.Absorbed(fn)
		for _, cs := range p.CallsIn(fn) {
			// a read inside a helper that exists only inlined (a shared "open the iterator for this prefix") is read
			// where it was inlined, with the caller's prefix; its parameterised original is not a read of its own
			if p.IsClone(cs.Ins) {
				if o := p.OriginFn(cs.Ins); o == nil || !p.Absorbed(o) {
					continue
				}
			} else if absorbed {
				continue
			}
			c := cs.Ins.Common()
			var op string
			var storeV, keyV ssa.Value
			if c.IsInvoke() && isKVStoreIface(c.Value.Type()) {
				op = c.Method.Name()
				storeV = c.Value
				if len(c.Args) > 0 {
					keyV = c.Args[0]
				}
			} else if f := c.StaticCallee(); f != nil {
				switch {
				case f.Signature.Recv() != nil && isKVStoreIface(f.Signature.Recv().Type()):
					op = f.Name()
					storeV = c.Args[0]
					if len(c.Args) > 1 {
						keyV = c.Args[1]
					}
				case strings.HasSuffix(funcName(f), "cosmos-sdk/types.KVStorePrefixIterator"):
					op, storeV, keyV = "PrefixIterator", c.Args[0], c.Args[1]
				case strings.HasSuffix(funcName(f), "cosmos-sdk/types.KVStoreReversePrefixIterator"):
					op, storeV, keyV = "ReversePrefixIterator", c.Args[0], c.Args[1]
				default:
					continue
				}
			} else {
				continue
			}
			switch op {
			case "Get", "Has", "Iterator", "ReverseIterator", "PrefixIterator", "ReversePrefixIterator":
			default:
				continue
			}
			full := p.storePrefix(x.E(storeV), nil, 0)
			if keyV != nil {
				full += p.ShapeExpr(x.E(keyV))
			}
			out = append(out, &StoreRead{Fn: fn, Ins: cs.Ins, Op: op, Full: full, Pos: cs.Ins.Pos()})
		}
	}
	sort.Slice(out, func(i, j int) bool { return p.Pos(out[i].Pos) < p.Pos(out[j].Pos) })
	p.storeReadsCache = out
	return out
}
