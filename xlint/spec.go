package main

import (
	"fmt"
	"sort"
	"strings"

	"golang.org/x/tools/go/ssa"
)

// FnSpec is a table of obligations on one function, in canonical form.
type FnSpec struct {
	Fn      string   // function spec, e.g. x/xibc/keeper.Keeper.RecvPacket
	Guards  []G      // rejecting branches that must exist
	Effects []Eff    // calls that must exist (count), with bound arguments and dominating conditions
	Success []string // conditions dominating every non-rejecting return
	Returns []Ret    // constraints on returned values
	Stores  []St     // field/cell stores that must exist with the given value
	RetAts  []RetAt  // returns of a particular value and the conditions that dominate them
}

type G struct{ Label, Want string }

type Eff struct {
	Label  string
	Callee string         // suffix of canonical callee name
	N      int            // exact number of call sites (-1: at least one)
	Args   map[int]string // argument index (receiver first) -> canonical origin
	Under  []string       // conditions that must dominate every site
	Err    bool           // error result must be propagated
	Filter string         // only sites whose rendered call contains this substring (after macro expansion)
}

type Ret struct {
	Label string
	Index int
	Want  []string // allowed canonical expressions (every non-rejecting return's result must be one of them)
}

type St struct {
	Label, Addr, Val string
	Under            []string `json:",omitempty"`
}

// RetAt: some return yields Want as result Index, and every return that does is dominated by Under.
type RetAt struct {
	Label string
	Index int
	Want  string
	Under []string
}

func (c *Check) Spec(rule string, m Macros, s FnSpec) {
	fn := c.F(s.Fn)
	fa := c.P.FA(fn)
	for _, g := range s.Guards {
		c.HasGuard(fn, rule, "guard:"+g.Label, m, g.Want)
	}
	for _, e := range s.Effects {
		// call sites are taken as written; when their number does not fit, a site whose argument is a merge is
		// read as one instance per incoming edge (constants first, then any value)
		var sites []*CallSite
		for mode := 0; mode < 3; mode++ {
			sites = nil
			for _, cs := range c.Calls(fn, m.X(e.Callee)) {
				switch mode {
				case 0:
					sites = append(sites, cs)
				case 1:
					sites = append(sites, c.P.Instances(cs)...)
				case 2:
					sites = append(sites, c.P.InstancesAny(cs)...)
				}
			}
			if e.Filter != "" {
				f := m.X(e.Filter)
				var keep []*CallSite
				for _, cs := range sites {
					if strings.Contains(callString(c.P, cs), f) {
						keep = append(keep, cs)
					}
				}
				sites = keep
			}
			if len(sites) == e.N || (e.N < 0 && len(sites) >= 1) {
				break
			}
		}
		construct := funcName(fn) + "/effect:" + e.Label
		pos := fn.Pos()
		if len(sites) > 0 {
			pos = sites[0].Ins.Pos()
		}
		okN := len(sites) == e.N || (e.N < 0 && len(sites) >= 1)
		c.Req(okN, rule, construct+"/count", pos, fmt.Sprintf("%d site(s)", len(sites)), fmt.Sprintf("expected %d call site(s) of %s [%s] in %s, found %d", e.N, e.Callee, e.Label, funcName(fn), len(sites)))
		for i, cs := range sites {
			lab := e.Label
			if len(sites) > 1 {
				lab = fmt.Sprintf("%s#%d", e.Label, i)
			}
			idx := make([]int, 0, len(e.Args))
			for k := range e.Args {
				idx = append(idx, k)
			}
			sort.Ints(idx)
			for _, k := range idx {
				c.ArgIs(cs, rule, fmt.Sprintf("effect:%s.arg%d", lab, k), m, k, e.Args[k])
			}
			if len(e.Under) > 0 {
				c.extraConds = cs.ExtraConds
				c.Under(fn, rule, "effect:"+lab, m, cs.Ins, e.Under...)
				c.extraConds = nil
			}
			if e.Err {
				c.ErrPropagated(cs, rule, lab)
			}
		}
	}
	if len(s.Success) > 0 {
		c.SuccessUnder(fn, rule, m, s.Success...)
	}
	for _, r := range s.Returns {
		rets := fa.NonRejectReturns()
		for i, ret := range rets {
			if r.Index >= len(ret.Results) {
				continue
			}
			gotE := fa.X.E(RetVal(ret, r.Index))
			got := gotE.String()
			ok := false
			for _, w := range r.Want {
				if m.X(w) == got {
					ok = true
				}
			}
			if !ok {
				if ex := c.expandConstructor(gotE); ex != nil {
					for _, w := range r.Want {
						if m.X(w) == ex.String() {
							ok = true
							got = ex.String()
						}
					}
				}
			}
			if !ok && got == "nil" && r.Index == len(ret.Results)-1 && fa.resultKind() == "error" {
				// normal form of `return X`: `if X != nil { return X }; return nil` - the wanted error value is the
				// one whose nil-ness decides this return
				conds := fa.PathCondStrings(ret.Block())
				for _, w := range r.Want {
					if conds["("+m.X(w)+" == nil)"] {
						ok = true
						got = "nil under (" + m.X(w) + " == nil)"
					}
				}
			}
			c.Req(ok, rule, fmt.Sprintf("%s/return:%s#%d", funcName(fn), r.Label, i), ret.Pos(), m.Fold(got), fmt.Sprintf("result %d of a non-rejecting return is %s; allowed: %v", r.Index, m.Fold(got), r.Want))
		}
		if len(rets) == 0 {
			c.Bad(rule, funcName(fn)+"/return:"+r.Label, fn.Pos(), "no non-rejecting return")
		}
	}
	raFound := map[string]bool{}
	raCount := map[string]int{}
	for _, ra := range s.RetAts {
		raCount[ra.Label]++
	}
	for _, ra := range s.RetAts {
		found := false
		for _, b := range fn.Blocks {
			if len(b.Instrs) == 0 {
				continue
			}
			ret, ok := b.Instrs[len(b.Instrs)-1].(*ssa.Return)
			if !ok || ra.Index >= len(ret.Results) {
				continue
			}
			if fa.X.E(RetVal(ret, ra.Index)).String() == m.X(ra.Want) {
				found = true
				c.Ok(rule, funcName(fn)+"/returns:"+ra.Label, ret.Pos(), m.Fold(ra.Want))
				if len(ra.Under) > 0 {
					c.Under(fn, rule, "return:"+ra.Label, m, ret, ra.Under...)
				}
			}
		}
		if found {
			raFound[ra.Label] = true
		}
		if !found && raCount[ra.Label] == 1 {
			c.Bad(rule, funcName(fn)+"/returns:"+ra.Label, fn.Pos(), "no return yields "+m.Fold(ra.Want)+" as result "+fmt.Sprint(ra.Index))
		}
	}
	for lab, n := range raCount {
		if n > 1 && !raFound[lab] { // several accepted forms of one value: at least one must be returned
			c.Bad(rule, funcName(fn)+"/returns:"+lab, fn.Pos(), "no return yields any of the accepted forms as result")
		}
	}
	for _, st := range s.Stores {
		found := false
		var seen []string
		for _, b := range fn.Blocks {
			for _, ins := range b.Instrs {
				if sto, ok := ins.(*ssa.Store); ok {
					a, v := fa.X.E(sto.Addr).String(), fa.X.E(sto.Val).String()
					if a == m.X(st.Addr) {
						seen = append(seen, m.Fold(v))
						if v == m.X(st.Val) {
							found = true
							c.Ok(rule, funcName(fn)+"/store:"+st.Label, sto.Pos(), m.Fold(a)+" := "+m.Fold(v))
							if len(st.Under) > 0 {
								c.Under(fn, rule, "store:"+st.Label, m, sto, st.Under...)
							}
						}
					}
				}
			}
		}
		if !found {
			c.Bad(rule, funcName(fn)+"/store:"+st.Label, fn.Pos(), fmt.Sprintf("no store %s := %s (stores to that address: %v)", st.Addr, st.Val, seen))
		}
	}
}

func callString(p *Program, cs *CallSite) string {
	args := p.ArgExprs(cs)
	ss := make([]string, len(args))
	for i, a := range args {
		ss[i] = a.String()
	}
	return cs.Name + "(" + strings.Join(ss, ", ") + ")"
}

// genSpec prints a Go literal skeleton of a FnSpec for review (development aid).
func genSpec(p *Program, spec string, callFilter string) {
	fn := p.Func(spec)
	a := p.FA(fn)
	fmt.Printf("// %s  %s\n", funcName(fn), p.Pos(fn.Pos()))
	for i, prm := range fn.Params {
		fmt.Printf("//   $%d = %s %s\n", i, prm.Name(), typeStr(prm.Type()))
	}
	fmt.Printf("{Fn: %q,\n Guards: []G{\n", spec)
	gs := a.OwnGuards()
	sort.Slice(gs, func(i, j int) bool { return gs[i].If.Pos() < gs[j].If.Pos() })
	for _, g := range gs {
		fmt.Printf("  {%q, %q}, // %s\n", "", g.String(), p.Pos(g.If.Cond.Pos()))
	}
	fmt.Printf(" },\n Effects: []Eff{\n")
	for _, cs := range p.CallsIn(fn) {
		if callFilter == "" {
			break
		}
		hit := callFilter == "*"
		for _, f := range strings.Split(callFilter, "|") {
			if strings.Contains(cs.Name, f) {
				hit = true
			}
		}
		if !hit {
			continue
		}
		args := p.ArgExprs(cs)
		var as []string
		for i, e := range args {
			as = append(as, fmt.Sprintf("%d: %q", i, e.String()))
		}
		var conds []string
		for s := range a.PathCondStrings(cs.Ins.Block()) {
			conds = append(conds, fmt.Sprintf("%q", s))
		}
		sort.Strings(conds)
		fmt.Printf("  {Label: %q, Callee: %q, N: 1, Args: map[int]string{%s}, Under: []string{%s}}, // %s\n", "", cs.Name, strings.Join(as, ", "), strings.Join(conds, ", "), p.Pos(cs.Ins.Pos()))
	}
	fmt.Printf(" },\n},\n")
	for _, r := range a.NonRejectReturns() {
		var rs []string
		for i := range r.Results {
			rs = append(rs, a.X.E(RetVal(r, i)).String())
		}
		var conds []string
		for s := range a.PathCondStrings(r.Block()) {
			conds = append(conds, s)
		}
		sort.Strings(conds)
		fmt.Printf("// success-return %s: %s\n//    under: %s\n", p.Pos(r.Pos()), strings.Join(rs, " , "), strings.Join(conds, " ; "))
	}
}
