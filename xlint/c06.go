package main

import (
	"fmt"
	"go/types"
	"strings"

	"golang.org/x/tools/go/ssa"
)

func init() { register("C06", c06) }

func c06(c *Check) {
	c.Declined = []string{
		"the contracts' own msg.sender checks and nested-call behaviour (packet / endpoint / execute byte code; no EVM analyser in the sandbox)",
		"relayer registries over histories of re-registrations (the per-message structure is decided)",
	}
	c.Trusted = []string{"cosmos-sdk ante handler verifies the signatures of GetSigners()", "gov handler routing", "go/ssa"}
	c.Assume = []string{"guards and bindings were selected by source position at freeze time (xlint/picks/C06.txt)"}
	c.Rule("C06/update-client-auth", "frozen table: msg server UpdateClient authorises (msg.ChainName, msg.Signer) with AuthRelayer, runs the client's CheckMsg of that same chain, and only then updates that same chain", 8)
	c.Rule("C06/relayer-registry", "frozen table: AuthRelayer / GetRelayerAddressOnOtherChain answer positively only inside the loop over the Chains of the record stored for the given address, under chain == chainName, returning Addresses[i] of that index", 5)
	n := c.Frozen("C06")
	c.Extra["frozen_entries"] = n

	c.Rule("C06/only-packet-contract-logs-drive-the-module", "frozen table (shared with C04/hook): the send hook makes its privileged calls (setSequence from the module account) only for PacketSent logs emitted by the packet contract address itself, log by log; a look-alike log of another contract in the same receipt is not acted on", 5)
	c.FrozenFiltered("C04", "C06/only-packet-contract-logs-drive-the-module", func(fn string) bool { return strings.HasSuffix(fn, "Hooks.PostTxProcessing") })
	c.Rule("C06/accepted-update-is-stored", "every success path of the client keeper's UpdateClient stores the new client state exactly once: an accepted TSS rotation (whose height never advances) replaces the account that may drive the bridge", 1)
	{
		fn := c.F(clKeeper + "Keeper.UpdateClient")
		paths := c.PathCounts(fn, func(cs *CallSite) bool { return strings.HasSuffix(cs.Name, "keeper.(Keeper).SetClientState") })
		ok := len(paths) > 0
		for _, p := range paths {
			if p.Count != 1 {
				ok = false
			}
		}
		c.Req(ok, "C06/accepted-update-is-stored", funcName(fn), fn.Pos(), fmt.Sprint(len(paths), " success path(s)"), "a success path of UpdateClient does not execute SetClientState exactly once")
	}
	c.Rule("C06/passed-registration-is-stored", "every success path of the register-relayer proposal handler stores the proposal's (address, chains, addresses) exactly once: a passed proposal that narrows or rotates a registration replaces the old record, it is never skipped as 'already registered'", 2)
	{
		fn := c.F(clKeeper + "Keeper.HandleRegisterRelayer")
		isReg := func(cs *CallSite) bool { return strings.HasSuffix(cs.Name, "keeper.(Keeper).RegisterRelayers") }
		paths := c.PathCounts(fn, isReg)
		ok := len(paths) > 0
		for _, p := range paths {
			if p.Count != 1 {
				ok = false
			}
		}
		c.Req(ok, "C06/passed-registration-is-stored", funcName(fn), fn.Pos(), fmt.Sprint(len(paths), " success path(s)"), "a success path of HandleRegisterRelayer does not call RegisterRelayers exactly once")
		for _, cs := range c.P.CallsIn(fn) {
			if isReg(cs) {
				c.ArgIs(cs, "C06/passed-registration-is-stored", "RegisterRelayers.address", Macros{}, 2, "$2.Address")
				c.ArgIs(cs, "C06/passed-registration-is-stored", "RegisterRelayers.chains", Macros{}, 3, "$2.Chains")
				c.ArgIs(cs, "C06/passed-registration-is-stored", "RegisterRelayers.addresses", Macros{}, 4, "$2.Addresses")
			}
		}
	}
	c.Rule("C06/acknowledgement-verified-before-the-module-calls", "frozen table (shared with C02 / C05): the packet keeper accepts an acknowledgement only with the stored commitment of exactly that packet and the client's proof check (for a TSS counterparty: the TSS account's), so the privileged calls that follow (ack status, fee pay-out, sender callback) are never driven by an unproven message", 20)
	c.FrozenFiltered("C02", "C06/acknowledgement-verified-before-the-module-calls", func(fn string) bool { return strings.HasSuffix(fn, "Keeper.AcknowledgePacket") })
	c.Rule("C06/positive-answers-only-under-chain-match", "AuthRelayer / GetRelayerAddressOnOtherChain: every return whose boolean answer is not the constant false is dominated by the chain == chainName test on an element of the signer's record", 2)
	for _, spec := range []struct {
		fn  string
		idx int
	}{{clKeeper + "Keeper.AuthRelayer", 0}, {clKeeper + "Keeper.GetRelayerAddressOnOtherChain", 1}} {
		fn := c.F(spec.fn)
		fa := c.P.FA(fn)
		ok, n := true, 0
		for _, b := range fn.Blocks {
			r, isRet := b.Instrs[len(b.Instrs)-1].(*ssa.Return)
			if !isRet {
				continue
			}
			if k, isC := RetVal(r, spec.idx).(*ssa.Const); isC && k.Value != nil && k.Value.String() == "false" {
				continue
			}
			n++
			match := false
			for cond := range fa.PathCondStrings(b) {
				if strings.Contains(cond, ".Chains[") && strings.Contains(cond, " == ") && strings.Contains(cond, "$2") {
					match = true
				}
			}
			if !match {
				ok = false
			}
		}
		c.Req(ok && n >= 1, "C06/positive-answers-only-under-chain-match", funcName(fn), fn.Pos(), fmt.Sprint(n, " positive return(s)"), "a return that can answer 'authorised/found' is not dominated by the chain == chainName comparison")
	}

	c.Rule("C06/registry-read-back-intact", "the relayer registry is decoded entry by entry into a fresh target (a reused protobuf target accumulates the chains of earlier relayers into later ones, so after an export/import a registration for one chain would confer another's)", 1)
	freshDecodeRule(c, "C06/registry-read-back-intact")

	c.Rule("C06/validators-do-not-rewrite", "the stateless validators of xibc / aggregate messages and proposals do not write through their receiver (a RegisterRelayerProposal is validated at submission and executed later: an in-place rewrite such as sorting Chains scrambles the chain↔address pairing)", 10)
	nv := validatorsArePure(c, "C06/validators-do-not-rewrite", func(pk string) bool { return strings.Contains(pk, "/x/xibc/") || strings.Contains(pk, "/x/aggregate/") })
	c.Extra["validators_examined"] = nv

	c.Rule("C06/registry-only-in-the-store", "relayer registration and lookup keep no state outside the KV store (no package variables, sync.Map, receiver-held maps): node-local memory ignores cache contexts, so a registration made in a discarded dry run or failed transaction would stay effective", 6)
	for _, f := range []string{"RegisterRelayers", "GetRelayer", "AuthRelayer", "GetRelayerAddressOnOtherChain", "GetRelayerAddressOnTeleport", "GetAllRelayers"} {
		fn := c.F(clKeeper + "Keeper." + f)
		ws := sharedMemoryWrites(c, fn)
		c.Req(len(ws) == 0, "C06/registry-only-in-the-store", funcName(fn), fn.Pos(), "store-only", "keeps state outside the KV store: "+strings.Join(ws, "; "))
	}
	// the keeper struct itself holds no mutable containers
	if tn := c.P.Pkg("x/xibc/core/client/keeper").Type("Keeper"); tn != nil {
		st := tn.Type().Underlying().(*types.Struct)
		for i := 0; i < st.NumFields(); i++ {
			ft := st.Field(i).Type()
			s := typeStr(ft)
			bad := strings.Contains(s, "sync.Map") || strings.HasPrefix(s, "map[") || strings.HasPrefix(s, "*map[")
			c.Req(!bad, "C06/registry-only-in-the-store", "client keeper field "+st.Field(i).Name(), st.Field(i).Pos(), s, "client keeper holds an in-memory container ("+s+"): state outside the store")
		}
	}

	c.Rule("C06/tss-signer-is-the-proof", "for a TSS-secured counterparty the only accepted proof is the message signer itself: the keeper substitutes msg.Signer for the proof on the TSS client-type branch (never a caller-supplied proof field), and the TSS client compares it with the configured TSS address (shared with C02)", 2)
	tssProofRule(c, "C06/tss-signer-is-the-proof")
	c.FrozenFiltered("C02", "C06/tss-signer-is-the-proof", func(fn string) bool { return strings.Contains(fn, "tss-client/types.") })

	m := msM
	c.Rule("C06/recv-packet-relayer", "msg server RecvPacket: callback, acknowledgements and success are dominated by the found edge of GetRelayerAddressOnOtherChain(packet.SrcChain, msg.Signer); the fee recipient in every acknowledgement is that call's result", 8)
	ms := c.F(xibcK + "Keeper.RecvPacket")
	c.HasGuard(ms, "C06/recv-packet-relayer", "relayer-registered-for-source-chain", m, "reject !{REL}#1")
	for i, cs := range c.Calls(ms, "keeper.(Keeper).CallPacket") {
		c.Under(ms, "C06/recv-packet-relayer", fmt.Sprintf("CallPacket#%d", i), m, cs.Ins, "{REL}#1")
	}
	for i, cs := range c.Calls(ms, "keeper.(Keeper).WriteAcknowledgement") {
		c.Under(ms, "C06/recv-packet-relayer", fmt.Sprintf("WriteAcknowledgement#%d", i), m, cs.Ins, "{REL}#1")
	}
	for i, cs := range c.Calls(ms, "packet/types.NewAcknowledgement") {
		c.ArgIs(cs, "C06/recv-packet-relayer", fmt.Sprintf("NewAcknowledgement#%d.relayer", i), m, 3, "{REL}#0")
	}
	c.SuccessUnder(ms, "C06/recv-packet-relayer", m, "{REL}#1")

	c.Rule("C06/signer-binding", "GetSigners() of every teleport message returns exactly the address parsed from the field its handler authorises on", 5)
	for _, s := range []struct{ fn, field string }{
		{"x/xibc/core/client/types.MsgUpdateClient.GetSigners", "Signer"}, {"x/xibc/core/packet/types.MsgRecvPacket.GetSigners", "Signer"},
		{"x/xibc/core/packet/types.MsgAcknowledgement.GetSigners", "Signer"}, {"x/aggregate/types.MsgConvertCoin.GetSigners", "Sender"},
	} {
		fn := c.F(s.fn)
		ok := true
		n := 0
		for _, r := range c.P.FA(fn).NonRejectReturns() {
			e := c.P.Ex(fn).E(RetVal(r, 0)).String()
			if e == "nil" {
				continue
			}
			n++
			if e != "[cosmos-sdk/types.AccAddressFromBech32($0."+s.field+")#0]" {
				ok = false
			}
		}
		c.Req(ok && n >= 1, "C06/signer-binding", funcName(fn), fn.Pos(), "signer = "+s.field, "GetSigners does not return exactly the address parsed from "+s.field)
	}
	{
		fn := c.F("x/aggregate/types.MsgConvertERC20.GetSigners")
		ok := false
		for _, r := range c.P.FA(fn).NonRejectReturns() {
			if strings.Contains(c.P.Ex(fn).E(RetVal(r, 0)).String(), "go-ethereum/common.HexToAddress($0.Sender)") {
				ok = true
			}
		}
		c.Req(ok, "C06/signer-binding", funcName(fn), fn.Pos(), "signer = Sender (hex)", "MsgConvertERC20.GetSigners is not derived from Sender")
	}

	c.Rule("C06/privileged-contract-methods", "privileged packet-contract methods are invoked only by the module code that processes the corresponding verified message; method names are constants; endpoint token-binding / supply-limit methods only from the aggregate proposal path", 12)
	callPacketMethodOwners(c, "C06/privileged-contract-methods", "onRecvPacket", "xibc/keeper.(Keeper).RecvPacket")
	callPacketMethodOwners(c, "C06/privileged-contract-methods", "setAckStatus", "xibc/keeper.(Keeper).Acknowledgement")
	callPacketMethodOwners(c, "C06/privileged-contract-methods", "sendPacketFeeToRelayer", "xibc/keeper.(Keeper).Acknowledgement")
	callPacketMethodOwners(c, "C06/privileged-contract-methods", "OnAcknowledgePacket", "xibc/keeper.(Keeper).Acknowledgement")
	callPacketMethodOwners(c, "C06/privileged-contract-methods", "setSequence", "packet/keeper.(Keeper).SendPacket")
	// the set of method names used with CallPacket is exactly those five
	known := map[string]bool{`"onRecvPacket"`: true, `"setAckStatus"`: true, `"sendPacketFeeToRelayer"`: true, `"OnAcknowledgePacket"`: true, `"setSequence"`: true}
	target := c.F(pkKeeper + "Keeper.CallPacket")
	for fn := range c.P.AllFuncs {
		if !inScope(fn) || len(fn.Blocks) == 0 {
			continue
		}
		for _, cs := range c.P.CallsInOwn(fn) {
			if c.P.resolveCallee(cs.Ins.Common()) == target {
				a := c.P.ArgExprs(cs)[2]
				c.Req(known[a.String()], "C06/privileged-contract-methods", "CallPacket method "+a.String()+" in "+funcName(fn), cs.Ins.Pos(), "known method", "CallPacket invoked with an unlisted method "+a.String()+" from "+funcName(fn))
			}
		}
	}
	for _, f := range []string{"AddERC20TraceToTransferContract", "EnableTimeBasedSupplyLimitInTransferContract", "DisableTimeBasedSupplyLimitInTransferContract"} {
		fn := c.P.FuncOpt(agK + "Keeper." + f)
		if fn == nil {
			checkerFail("anchor unresolved: %s", f)
		}
		owner := map[string]string{"AddERC20TraceToTransferContract": "keeper.(Keeper).RegisterERC20Trace", "EnableTimeBasedSupplyLimitInTransferContract": "keeper.(Keeper).EnableTimeBasedSupplyLimit", "DisableTimeBasedSupplyLimitInTransferContract": "keeper.(Keeper).DisableTimeBasedSupplyLimit"}[f]
		c.WhoMayCall("C06/privileged-contract-methods", fn, owner)
	}
	for _, f := range []string{"RegisterERC20Trace", "EnableTimeBasedSupplyLimit", "DisableTimeBasedSupplyLimit"} {
		h := c.F("x/aggregate.handle" + f + "Proposal")
		c.WhoMayCall("C06/privileged-contract-methods", c.F(agK+"Keeper."+f), "x/aggregate.handle"+f+"Proposal")
		c.WhoMayCall("C06/privileged-contract-methods", h, "x/aggregate.NewAggregateProposalHandler")
	}

	c.Rule("C06/module-is-the-caller", "every EVM call made by the modules uses a module address as `from`, except the single audited site where the message signer moves their own ERC-20 tokens", 10)
	for fn := range c.P.AllFuncs {
		if !inScope(fn) || len(fn.Blocks) == 0 {
			continue
		}
		for _, cs := range c.P.CallsInOwn(fn) {
			f := c.P.resolveCallee(cs.Ins.Common())
			if f == nil {
				continue
			}
			n := funcName(f)
			idx := -1
			switch {
			case strings.HasSuffix(n, "keeper.(Keeper).CallEVMWithData"):
				idx = 2
			case strings.HasSuffix(n, "keeper.(Keeper).CallEVM"):
				idx = 3
			}
			if idx < 0 {
				continue
			}
			from := c.P.ArgExprs(cs)[idx].String()
			construct := fmt.Sprintf("%s: %s from=%s", funcName(fn), f.Name(), trunc(from))
			switch {
			case from == "g:aggregate/types.ModuleAddress" || from == "g:packet/types.ModuleAddress":
				c.Ok("C06/module-is-the-caller", construct, cs.Ins.Pos(), "module address")
			case strings.HasSuffix(funcName(fn), "keeper.(Keeper).CallEVM") && from == "$3":
				c.Ok("C06/module-is-the-caller", construct, cs.Ins.Pos(), "CallEVM forwards its `from` parameter (checked at its call sites)")
			case funcName(fn) == "aggregate/keeper.(Keeper).convertERC20NativeToken" && from == "$5":
				// audited: $5 is the `sender` parameter; its only caller must pass the address of the message's Sender (the signer)
				okCaller := false
				conv := c.F(agK + "Keeper.ConvertERC20")
				for _, cc := range c.Calls(conv, "keeper.(Keeper).convertERC20NativeToken") {
					a := c.P.ArgExprs(cc)
					okCaller = len(a) > 5 && a[5].String() == "go-ethereum/common.HexToAddress($2.Sender)"
				}
				callers := c.StaticCallers(fn)
				c.Req(okCaller && len(callers) == 1, "C06/module-is-the-caller", construct, cs.Ins.Pos(), "audited: the signer (msg.Sender) transfers their own tokens to the module", "convertERC20NativeToken's `from` is no longer bound to the message signer at its single call site")
			default:
				c.Bad("C06/module-is-the-caller", construct, cs.Ins.Pos(), "EVM call with a non-module `from` address: "+from)
			}
		}
	}

	c.Rule("C06/lifecycle-entry-points", "client lifecycle and relayer registration are reachable only from the governance handler (and genesis)", 5)
	c.WhoMayCall("C06/lifecycle-entry-points", c.F(clKeeper+"Keeper.RegisterRelayers"), "keeper.(Keeper).HandleRegisterRelayer", "core/client.InitGenesis")
	for _, h := range []string{"CreateClient", "UpgradeClient", "ToggleClient", "RegisterRelayer"} {
		ph := c.F("x/xibc/core/client.handle" + h + "Proposal")
		c.WhoMayCall("C06/lifecycle-entry-points", c.F(clKeeper+"Keeper.Handle"+h), "core/client.handle"+h+"Proposal")
		c.WhoMayCall("C06/lifecycle-entry-points", ph, "core/client.NewClientProposalHandler")
	}
	for _, w := range writesWithPrefix(c, "relayers") {
		c.Req(strings.HasSuffix(funcName(w.Fn), "keeper.(Keeper).RegisterRelayers"), "C06/lifecycle-entry-points", "raw write relayers in "+funcName(w.Fn), w.Pos, "", "relayer registry written outside RegisterRelayers: "+funcName(w.Fn))
	}
	_ = ssa.Function{}
}
