package main

import (
	"fmt"
	"go/token"
	"go/types"
	"os"
	"sort"
	"strings"

	"golang.org/x/tools/go/ssa"
)

func init() { register("C14", c14) }

// c14Roots: everything that runs as part of block processing.
var c14RootClasses map[string]int

func c14Roots(c *Check) []*ssa.Function {
	seen := map[*ssa.Function]bool{}
	var roots []*ssa.Function
	add := func(f *ssa.Function) {
		if f != nil && len(f.Blocks) > 0 && !seen[f] {
			seen[f] = true
			roots = append(roots, c.Touch(f))
		}
	}
	for _, r := range c15Roots(c) {
		add(r)
	}
	ifaceMethods := map[string]bool{}
	for _, n := range []string{"ClientState", "ConsensusState", "Header"} {
		it := c.P.Pkg("x/xibc/exported").Type(n).Type().Underlying().(*types.Interface)
		for i := 0; i < it.NumMethods(); i++ {
			ifaceMethods[n+"."+it.Method(i).Name()] = true
		}
	}
	classes := map[string]int{"xibc message servers": 0, "aggregate message servers": 0, "EVM hooks": 0, "IBC middleware": 0, "upgrade handlers": 0}
	c14RootClasses = classes
	for fn := range c.P.AllFuncs {
		if !inScope(fn) || len(fn.Blocks) == 0 {
			continue
		}
		name := funcName(fn)
		switch {
		// message servers
		case strings.HasPrefix(name, "xibc/keeper.(Keeper).") && (fn.Name() == "UpdateClient" || fn.Name() == "RecvPacket" || fn.Name() == "Acknowledgement"):
			add(fn)
			classes["xibc message servers"]++
		case strings.HasPrefix(name, "aggregate/keeper.(Keeper).") && (fn.Name() == "ConvertCoin" || fn.Name() == "ConvertERC20"):
			add(fn)
			classes["aggregate message servers"]++
		// EVM hooks and IBC middleware
		case fn.Name() == "PostTxProcessing":
			add(fn)
			classes["EVM hooks"]++
		case strings.HasPrefix(name, "x/aggregate.(IBCMiddleware).") || strings.HasPrefix(name, "teleport/ibc.(Module)."):
			add(fn)
			classes["IBC middleware"]++
		// upgrade handlers
		case strings.HasPrefix(name, "teleport/app.registerUpgradeHandlers$"):
			add(fn)
			classes["upgrade handlers"]++
		}
		// light-client implementations (reached through interfaces)
		if fn.Signature.Recv() != nil {
			for _, pk := range []string{"tendermint/types", "bsc/types", "eth/types", "tss-client/types"} {
				if strings.HasPrefix(name, pk+".(") {
					for _, n := range []string{"ClientState", "ConsensusState", "Header"} {
						if strings.Contains(name, "("+n+")") || strings.Contains(name, "(*"+n+")") {
							if ifaceMethods[n+"."+fn.Name()] {
								add(fn)
							}
						}
					}
				}
			}
		}
	}
	sort.Slice(roots, func(i, j int) bool { return funcName(roots[i]) < funcName(roots[j]) })
	return roots
}

type ndSite struct {
	Fn   *ssa.Function
	Kind string
	What string
	Pos  token.Pos
	Ins  ssa.Instruction
}

// in-place methods of *big.Int: calling one on a package-level value changes it for the rest of the process
var bigIntMutators = map[string]bool{"Add": true, "Sub": true, "Mul": true, "Div": true, "Mod": true, "Quo": true, "Rem": true, "Set": true, "SetUint64": true,
	"SetInt64": true, "SetBytes": true, "SetString": true, "Exp": true, "Neg": true, "Abs": true, "Lsh": true, "Rsh": true, "And": true, "Or": true, "Xor": true, "Not": true, "Sqrt": true, "DivMod": true, "QuoRem": true}

// aliasesGlobal: the value may BE a package-level object (directly, or as one alternative of a phi / multi-store cell),
// as opposed to merely being computed from one.
func aliasesGlobal(e *Expr) bool {
	switch e.Op {
	case "global":
		return true
	case "phi", "cell":
		for _, a := range e.Args {
			if a != nil && aliasesGlobal(a) {
				return true
			}
		}
	case "call":
		// a plain function (no receiver) that returns a pointer may hand back one of its pointer arguments
		// (math.BigMax / BigMin do): its result aliases whatever its arguments alias
		if e.Val != nil && !strings.Contains(e.Name, ").") {
			if _, isPtr := e.Val.Type().Underlying().(*types.Pointer); isPtr {
				for _, a := range e.Args {
					if a != nil && aliasesGlobal(a) {
						return true
					}
				}
			}
		}
	}
	return false
}

var ndPkgs = []string{"os.", "io/ioutil.", "path/filepath.", "net.", "net/http.", "os/exec.", "syscall.", "math/rand.", "crypto/rand.", "mmap-go.", "os/user.", "os/signal."}

func ndSites(c *Check, fn *ssa.Function) []ndSite {
	var out []ndSite
	x := c.P.Ex(fn)
	for _, b := range fn.Blocks {
		for _, ins := range b.Instrs {
			if c.P.IsClone(ins) {
				continue
			}
			switch v := ins.(type) {
			case *ssa.Range:
				if _, isMap := v.X.Type().Underlying().(*types.Map); isMap {
					out = append(out, ndSite{fn, "map-range", "range " + trunc(x.E(v.X).String()), v.Pos(), v})
				}
			case *ssa.Go:
				out = append(out, ndSite{fn, "goroutine", "go " + trunc(x.callExpr(&v.Call, nil).String()), v.Pos(), v})
			case *ssa.Select:
				out = append(out, ndSite{fn, "select", "select", v.Pos(), v})
			case *ssa.Send:
				out = append(out, ndSite{fn, "chan-send", "send", v.Pos(), v})
			case *ssa.MakeChan:
				out = append(out, ndSite{fn, "chan-make", "make chan", v.Pos(), v})
			case *ssa.UnOp:
				if v.Op == token.ARROW {
					out = append(out, ndSite{fn, "chan-recv", "recv", v.Pos(), v})
				}
			case ssa.CallInstruction:
				if f := c.P.resolveCallee(v.Common()); f != nil && !inTeleport(f) {
					n := funcName(f)
					if strings.HasPrefix(n, "math/big.(*Int).") && bigIntMutators[f.Name()] && len(v.Common().Args) > 0 {
						recv := x.E(v.Common().Args[0])
						if aliasesGlobal(recv) {
							out = append(out, ndSite{fn, "global-mutation", n + " on " + trunc(recv.String()), v.Pos(), v})
						}
					}
					switch {
					case n == "time.Now" || n == "time.Since" || n == "time.Until":
						out = append(out, ndSite{fn, "wall-clock", n, v.Pos(), v})
					case n == "time.Unix" || n == "time.UnixMilli" || n == "time.UnixMicro" || n == "time.(Time).Local" || n == "time.(Time).In":
						out = append(out, ndSite{fn, "local-zone", n, v.Pos(), v})
					case n == "runtime.NumCPU" || n == "runtime.GOMAXPROCS" || n == "runtime.SetFinalizer" || n == "runtime.NumGoroutine":
						out = append(out, ndSite{fn, "runtime", n, v.Pos(), v})
					default:
						for _, p := range ndPkgs {
							if strings.HasPrefix(n, p) || strings.Contains(n, "/"+p) {
								kind := "os-env"
								if strings.Contains(p, "rand") {
									kind = "random"
								}
								out = append(out, ndSite{fn, kind, n, v.Pos(), v})
								break
							}
						}
					}
				}
			}
		}
	}
	return out
}

// loopBlocks: blocks of the loop driven by a Range's Next instruction.
func loopBlocks(fn *ssa.Function, rng *ssa.Range) map[*ssa.BasicBlock]bool {
	var next *ssa.Next
	for _, r := range *rng.Referrers() {
		if n, ok := r.(*ssa.Next); ok {
			next = n
		}
	}
	out := map[*ssa.BasicBlock]bool{}
	if next == nil {
		return out
	}
	head := next.Block()
	// blocks reachable from head that can reach head again
	reachFrom := func(b *ssa.BasicBlock) map[*ssa.BasicBlock]bool {
		seen := map[*ssa.BasicBlock]bool{}
		st := []*ssa.BasicBlock{b}
		for len(st) > 0 {
			x := st[len(st)-1]
			st = st[:len(st)-1]
			for _, s := range x.Succs {
				if !seen[s] {
					seen[s] = true
					st = append(st, s)
				}
			}
		}
		return seen
	}
	fromHead := reachFrom(head)
	for b := range fromHead {
		if reachFrom(b)[head] {
			out[b] = true
		}
	}
	out[head] = true
	return out
}

// mapRangeOrderInsensitive: the loop body only (a) appends to a local slice that is sorted after the loop,
// (b) writes map entries, (c) returns loop-invariant values, (d) computes; no stores to shared memory, no
// state-mutating calls, no channel/goroutine operations.
func mapRangeOrderInsensitive(c *Check, fn *ssa.Function, rng *ssa.Range) (bool, string) {
	blocks := loopBlocks(fn, rng)
	x := c.P.Ex(fn)
	dependsOnIter := func(v ssa.Value) bool {
		return x.E(v).Contains(func(e *Expr) bool { return e.Op == "un" && e.Name == "next " })
	}
	appended := false
	for b := range blocks {
		for _, ins := range b.Instrs {
			switch v := ins.(type) {
			case *ssa.Store:
				if _, local := v.Addr.(*ssa.Alloc); !local {
					if ia, ok := v.Addr.(*ssa.IndexAddr); ok {
						if _, isAlloc := ia.X.(*ssa.Alloc); isAlloc {
							continue // variadic argument array
						}
					}
					return false, "stores to non-local memory inside the loop at " + c.P.Pos(v.Pos())
				}
			case *ssa.Send, *ssa.Go, *ssa.Select, *ssa.Defer:
				return false, "channel/goroutine/defer inside the loop"
			case *ssa.Return:
				for _, r := range v.Results {
					if dependsOnIter(r) {
						return false, "returns a value that depends on the iteration element (first match wins depends on order) at " + c.P.Pos(v.Pos())
					}
				}
			case *ssa.Call:
				cc := v.Common()
				if bi, ok := cc.Value.(*ssa.Builtin); ok {
					if bi.Name() == "append" {
						appended = true
					}
					continue
				}
				name := ""
				if f := c.P.resolveCallee(cc); f != nil {
					name = funcName(f)
				} else if cc.IsInvoke() {
					name = "iface." + cc.Method.Name()
				}
				pure := false
				for _, p := range []string{"bytes.Equal", "go-ethereum/common.", "types/errors.Wrap", "fmt.Errorf", "fmt.Sprintf", "strings.", "math/big."} {
					if strings.HasPrefix(name, p) || strings.Contains(name, p) {
						pure = true
					}
				}
				if !pure {
					return false, "calls " + name + " inside the loop (not known to be order-insensitive)"
				}
			}
		}
	}
	// early exits: an edge out of the loop other than the iterator's own end. One kind of early exit with an
	// iteration-independent outcome is an existence test (order-free); an outcome that depends on the element, or two
	// different kinds of early exit (which one an execution takes depends on which element comes first), is not
	var head *ssa.BasicBlock
	for _, r := range *rng.Referrers() {
		if n, ok := r.(*ssa.Next); ok {
			head = n.Block()
		}
	}
	kinds := map[string]bool{}
	for b := range blocks {
		for _, s := range b.Succs {
			if blocks[s] || (b == head && len(b.Succs) == 2 && s == b.Succs[1]) {
				continue
			}
			for _, ins := range s.Instrs {
				if ph, ok := ins.(*ssa.Phi); ok {
					for i, p := range s.Preds {
						if p == b && dependsOnIter(ph.Edges[i]) {
							return false, "leaves the loop early carrying a value of the current element (first match wins depends on order) at " + c.P.Pos(b.Instrs[len(b.Instrs)-1].Pos())
						}
					}
				}
			}
			// outcomes of this early exit: the returns it can reach before it joins the code after the loop
			var done *ssa.BasicBlock
			if head != nil && len(head.Succs) == 2 {
				done = head.Succs[1]
			}
			seen := map[*ssa.BasicBlock]bool{}
			var walk func(t *ssa.BasicBlock) string
			walk = func(t *ssa.BasicBlock) string {
				if t == done || blocks[t] || len(seen) > 24 {
					kinds["continues after the loop"] = true
					return ""
				}
				if seen[t] {
					return ""
				}
				seen[t] = true
				if ret, ok := t.Instrs[len(t.Instrs)-1].(*ssa.Return); ok && t != fn.Recover {
					key := "return"
					for _, r := range ret.Results {
						if dependsOnIter(r) {
							return "returns a value that depends on the iteration element (first match wins depends on order) at " + c.P.Pos(ret.Pos())
						}
						key += " " + x.E(r).String()
					}
					kinds[key] = true
					return ""
				}
				for _, n := range t.Succs {
					if why := walk(n); why != "" {
						return why
					}
				}
				return ""
			}
			if why := walk(s); why != "" {
				return false, why
			}
		}
	}
	if len(kinds) > 1 {
		var ks []string
		for k := range kinds {
			ks = append(ks, trunc(k))
		}
		sort.Strings(ks)
		return false, "the loop has more than one kind of early exit (" + strings.Join(ks, "; ") + "): which one is taken depends on the iteration order"
	}
	if appended {
		// a sort call on the accumulated slice after the loop
		sorted := false
		for _, b := range fn.Blocks {
			if blocks[b] {
				continue
			}
			for _, ins := range b.Instrs {
				if call, ok := ins.(*ssa.Call); ok {
					if f := c.P.resolveCallee(&call.Call); f != nil && strings.HasPrefix(funcName(f), "sort.") {
						for _, a := range call.Call.Args {
							if strings.Contains(x.E(a).String(), "append(") || phiFedByAppend(a, blocks, 0) {
								// the sort must happen on every path to every return after the loop
								all := true
								for _, rb := range fn.Blocks {
									if blocks[rb] || len(rb.Instrs) == 0 {
										continue
									}
									if _, isRet := rb.Instrs[len(rb.Instrs)-1].(*ssa.Return); isRet && fn.Recover != rb {
										if !(b == rb || c.P.Dominates(b, rb)) && reachableFromLoop(blocks, rb) {
											all = false
										}
									}
								}
								if all {
									sorted = true
								}
							}
						}
					}
				}
			}
		}
		if !sorted {
			return false, "appends map elements to a slice that is not sorted afterwards"
		}
	}
	return true, ""
}

// reachableFromLoop: rb is reachable from some loop block (i.e. lies after the loop).
func reachableFromLoop(blocks map[*ssa.BasicBlock]bool, rb *ssa.BasicBlock) bool {
	seen := map[*ssa.BasicBlock]bool{}
	var st []*ssa.BasicBlock
	for b := range blocks {
		st = append(st, b)
	}
	for len(st) > 0 {
		x := st[len(st)-1]
		st = st[:len(st)-1]
		for _, s := range x.Succs {
			if s == rb {
				return true
			}
			if !seen[s] {
				seen[s] = true
				st = append(st, s)
			}
		}
	}
	return false
}

// phiFedByAppend: v (through conversions and phis) is fed by an append call located in the loop blocks.
func phiFedByAppend(v ssa.Value, blocks map[*ssa.BasicBlock]bool, d int) bool {
	if d > 4 {
		return false
	}
	switch t := v.(type) {
	case *ssa.MakeInterface:
		return phiFedByAppend(t.X, blocks, d+1)
	case *ssa.ChangeType:
		return phiFedByAppend(t.X, blocks, d+1)
	case *ssa.Convert:
		return phiFedByAppend(t.X, blocks, d+1)
	case *ssa.Phi:
		for _, e := range t.Edges {
			if phiFedByAppend(e, blocks, d+1) {
				return true
			}
		}
	case *ssa.Call:
		if b, ok := t.Call.Value.(*ssa.Builtin); ok && b.Name() == "append" && blocks[t.Block()] {
			return true
		}
	}
	return false
}

type ndAudit struct {
	fn, kind string // kind "" = any kind
	reason   string
	cond     string // name of the side condition that must hold ("" = none)
	hits     int
}

func c14(c *Check) {
	c.Declined = []string{
		"replay equality of state hashes itself (runtime)", "non-determinism inside dependencies (cosmos-sdk, ethermint, go-ethereum, tendermint)",
		"floating-point use (none of the reachable teleport code stores floats; not armed as a rule)",
	}
	c.Trusted = []string{"VTA call graph over CHA (x/tools) for reachability from the block-processing entry points", "KVStore iteration is ordered", "go/ssa"}
	roots := c14Roots(c)
	reach := c.Reachable(roots, "vta", nil)
	var fns []*ssa.Function
	for f := range reach {
		if inScope(f) {
			fns = append(fns, f)
		}
	}
	sort.Slice(fns, func(i, j int) bool { return funcName(fns[i]) < funcName(fns[j]) })

	// side conditions for the vendored ethash
	conds := map[string]func() (bool, string){}
	conds["no-disk-config"] = func() (bool, string) {
		// every ethash Config literal reachable from the roots leaves CacheDir / DatasetDir empty
		n := 0
		for _, f := range fns {
			for _, cs := range c.P.CallsIn(f) {
				if cs.Name != "eth/types.New" {
					continue
				}
				n++
				cfg := c.P.ArgExprs(cs)[0]
				bad := ""
				cfg.Walk(func(e *Expr) {
					if e.Op == "kv" && (e.Name == "CacheDir" || e.Name == "DatasetDir") {
						if !(e.Args[0].Op == "const" && e.Args[0].Name == `""`) {
							bad = e.Name + ": " + e.Args[0].String()
						}
					}
				})
				if cfg.Op != "zero" && cfg.Op != "lit" && !(cfg.Op == "const" && strings.HasPrefix(cfg.Name, "zero(")) {
					bad = "config is not a literal: " + trunc(cfg.String())
				}
				if bad != "" {
					return false, "ethash.New is called from " + funcName(f) + " with a disk directory (" + bad + "): cache files, temp names and mmap make verification depend on the local filesystem"
				}
			}
		}
		return n >= 1, fmt.Sprintf("%d ethash.New call sites reachable", n)
	}
	conds["no-full-dag"] = func() (bool, string) {
		n := 0
		for _, f := range fns {
			for _, cs := range c.P.CallsIn(f) {
				if cs.Name == "eth/types.(*Ethash).VerifySeal" && !strings.HasPrefix(funcName(f), "eth/types.(*Ethash)") && !strings.HasPrefix(funcName(f), "eth/types.(*remoteSealer)") {
					n++
					a := c.P.ArgExprs(cs)
					if a[2].String() != "false" {
						return false, "VerifySeal is called with fulldag=" + a[2].String() + " from " + funcName(f)
					}
				}
			}
		}
		return n >= 1, fmt.Sprintf("%d VerifySeal call sites", n)
	}
	audits := []*ndAudit{
		{fn: "eth/types.memoryMap", reason: "disk cache branch of the vendored ethash: unreachable when no cache directory is configured", cond: "no-disk-config"},
		{fn: "eth/types.memoryMapFile", reason: "disk cache branch (see memoryMap)", cond: "no-disk-config"},
		{fn: "eth/types.memoryMapAndGenerate", reason: "disk cache branch (temp-file name uses rand)", cond: "no-disk-config"},
		{fn: "eth/types.generate$1", reason: "cache/dataset generate: file paths, finalizers and removals only on the dir != \"\" branch", cond: "no-disk-config"},
		{fn: "eth/types.generateCache", reason: "progress-logging goroutine and wall clock used for log output only; the cache content is a pure function of the seed"},
		{fn: "eth/types.generateCache$1", reason: "elapsed time for a log line"},
		{fn: "eth/types.generateCache$2", reason: "progress-logging goroutine: reads an atomic counter, writes log lines"},
		{fn: "eth/types.generateDataset", reason: "full DAG generation: only with fulldag=true", cond: "no-full-dag"},
		{fn: "eth/types.generateDataset$1", reason: "full DAG generation (log timing)", cond: "no-full-dag"},
		{fn: "eth/types.generateDataset$2", reason: "full DAG generation workers", cond: "no-full-dag"},
		{fn: "eth/types.(*Ethash).dataset", reason: "full DAG lookup: only with fulldag=true", cond: "no-full-dag"},
		{fn: "eth/types.(*Ethash).cache", kind: "goroutine", reason: "pre-generates the next epoch's cache of a throw-away verifier instance; its result is never read by this verification"},
		{fn: "eth/types.New", kind: "chan-make", reason: "update channel of the verifier instance; never written on the verification path"},
		{fn: "eth/types.startRemoteSealer", reason: "remote-sealer plumbing created by New: channels and one idle goroutine that only serves channels nobody feeds; closed by Close()"},
		{fn: "eth/types.(*remoteSealer).loop", reason: "idle remote-sealer goroutine (no work is ever submitted on the verification path); touches no consensus state"},
		{fn: "eth/types.(*remoteSealer).notifyWork", reason: "remote-sealer goroutine body: only runs when mining work is pushed (never on the verification path)"},
		{fn: "eth/types.(*remoteSealer).sendNotification", reason: "remote-sealer HTTP notification: only with notify URLs (New is called with nil)"},
		{fn: "eth/types.(*remoteSealer).submitWork", reason: "remote-sealer: only on external work submission (never on the verification path)"},
		{fn: "eth/types.Close$1", kind: "chan-recv", reason: "Close waits for the idle remote-sealer goroutine to exit"},
	}

	c.Rule("C14/roots", "block-processing entry points: message servers, EVM hooks, IBC middleware, governance handlers, module Begin/EndBlock/InitGenesis, app ABCI entry points, upgrade handlers, every method of the four light-client implementations", 100)
	for _, r := range roots {
		c.Ok("C14/roots", funcName(r), r.Pos(), "root")
	}
	var rootClasses []string
	for k := range c14RootClasses {
		rootClasses = append(rootClasses, k)
	}
	sort.Strings(rootClasses)
	for _, k := range rootClasses {
		n := c14RootClasses[k]
		c.Req(n > 0, "C14/roots", "root class: "+k, token.NoPos, fmt.Sprint(n, " root(s)"), "no entry point of class '"+k+"' was found: the pattern that names them no longer matches (anchor drifted)")
	}
	c.Rule("C14/nondeterminism-source", "every map range, wall-clock read, random source, OS/filesystem/network access, goroutine, channel operation and runtime query reachable from the roots is discharged: map ranges by an order-insensitive body (append+sort, map-to-map, invariant returns), wall clock by flowing only into telemetry, everything else by an audited entry whose side condition is re-checked", 45)
	condCache := map[string]string{}
	nsites := 0
	for _, f := range fns {
		c.Touch(f)
		for _, s := range ndSites(c, f) {
			nsites++
			construct := fmt.Sprintf("%s|%s|%s", funcName(f), s.Kind, s.What)
			switch s.Kind {
			case "map-range":
				ok, why := mapRangeOrderInsensitive(c, f, s.Ins.(*ssa.Range))
				if ok {
					c.Ok("C14/nondeterminism-source", construct, s.Pos, "order-insensitive loop body")
					continue
				}
				_ = why
			case "local-zone":
				// time.Unix yields a Time in the node's local zone: harmless while only zone-independent questions are asked of it
				if call, ok := s.Ins.(*ssa.Call); ok && call.Referrers() != nil && zoneIndependentUses(c, call, 0) {
					c.Ok("C14/nondeterminism-source", construct, s.Pos, "the local-zone Time is only compared / converted back to numbers / normalised with UTC()")
					continue
				}
			case "wall-clock":
				if call, ok := s.Ins.(*ssa.Call); ok && call.Referrers() != nil {
					all := len(*call.Referrers()) > 0
					for _, r := range *call.Referrers() {
						ci, isCall := r.(ssa.CallInstruction)
						if !isCall {
							all = false
							continue
						}
						n := ""
						if cf := c.P.resolveCallee(ci.Common()); cf != nil {
							n = funcName(cf)
						}
						if !strings.Contains(n, "cosmos-sdk/telemetry.") {
							all = false
						}
					}
					if all {
						c.Ok("C14/nondeterminism-source", construct, s.Pos, "wall clock flows only into telemetry")
						continue
					}
				}
			}
			var hit *ndAudit
			for _, a := range audits {
				if a.fn == funcName(f) && (a.kind == "" || a.kind == s.Kind) {
					hit = a
					break
				}
			}
			if hit == nil {
				why := ""
				if s.Kind == "map-range" {
					_, why = mapRangeOrderInsensitive(c, f, s.Ins.(*ssa.Range))
					why = " (" + why + ")"
				}
				c.Bad("C14/nondeterminism-source", construct, s.Pos, fmt.Sprintf("undischarged non-determinism source %s%s in block processing, reachable via %s", s.Kind, why, pathTo(reach, f)))
				continue
			}
			hit.hits++
			if hit.cond != "" {
				res, done := condCache[hit.cond]
				if !done {
					ok, why := conds[hit.cond]()
					res = "ok"
					if !ok {
						res = why
					}
					condCache[hit.cond] = res
				}
				c.Req(res == "ok", "C14/nondeterminism-source", construct, s.Pos, "audited: "+hit.reason+" ["+hit.cond+" holds]", "audited entry's side condition '"+hit.cond+"' fails: "+res)
				continue
			}
			c.Ok("C14/nondeterminism-source", construct, s.Pos, "audited: "+hit.reason)
		}
	}
	c.Rule("C14/no-node-local-state", "block processing keeps no state outside the stores: no writes to package-level variables, sync.Map or receiver-held maps in reachable teleport code (such memory differs between nodes and survives discarded cache contexts); audited: the vendored ethash's per-instance caches", 50)
	for _, f := range fns {
		ws := sharedMemoryWrites(c, f)
		if len(ws) == 0 {
			c.Ok("C14/no-node-local-state", funcName(f), f.Pos(), "")
			continue
		}
		audited := strings.HasPrefix(funcName(f), "eth/types.") && (strings.Contains(funcName(f), "lru") || strings.Contains(funcName(f), "Ethash") || strings.Contains(funcName(f), "remoteSealer") || strings.Contains(funcName(f), "cache") || strings.Contains(funcName(f), "dataset"))
		c.Req(audited, "C14/no-node-local-state", funcName(f), f.Pos(), "audited: per-instance ethash structure of a throw-away verifier", "node-local state written during block processing: "+strings.Join(ws, "; "))
	}
	c.Rule("C14/no-shared-stateful-helpers", "block processing reads no package-level variable that can carry state between calls or be shared between goroutines: function values (closures over buffers / hashers), channels, sync and hash objects, maps and slices that are not written only at init time are flagged unless audited", 1)
	{
		audited := map[string]string{
			"eth/types.hasherPool":          "sync.Pool of keccak states: Get hands an object to one goroutine at a time and rlpHash resets it before use",
			"bsc/types.hasherPool":          "sync.Pool of keccak states: Get hands an object to one goroutine at a time and rlpHash resets it before use",
			"client/types.IsRevisionFormat": "method value of a compiled regular expression (immutable, safe for concurrent use)",
			"eth/types.sharedEthash":        "only assigned to an instance whose Config.PowMode is ModeShared; the verifier is built from the zero Config (side condition no-disk-config of the ethash audit checks the Config literals)",
		}
		seenG := map[string]bool{}
		for _, f := range fns {
			for _, b := range f.Blocks {
				for _, ins := range b.Instrs {
					if c.P.IsClone(ins) {
						continue
					}
					var buf [8]*ssa.Value
					for _, op := range ins.Operands(buf[:0]) {
						g, ok := (*op).(*ssa.Global)
						if !ok || g.Pkg == nil || !strings.HasPrefix(g.Pkg.Pkg.Path(), modPath) {
							continue
						}
						kind := statefulKind(g.Type().(*types.Pointer).Elem())
						if kind == "" {
							continue
						}
						name := short(g.Pkg.Pkg.Path()) + "." + g.Name()
						if seenG[name] {
							continue
						}
						seenG[name] = true
						why, ok2 := audited[name]
						c.Req(ok2, "C14/no-shared-stateful-helpers", name+" ("+kind+")", ins.Pos(), "audited: "+why, "package-level "+kind+" "+name+" is used in block processing (first use in "+funcName(f)+"): an object of this kind keeps state between calls and is shared with concurrently running queries / simulations, so results depend on what else the node process is doing")
					}
				}
			}
		}
		c.Ok("C14/no-shared-stateful-helpers", "globals of reachable code scanned", token.NoPos, fmt.Sprint(len(seenG), " stateful-kind global(s)"))
	}
	c.Rule("C14/keepers-hold-no-state", "every Keeper struct of the repository consists of wiring only (interfaces, parameter subspace, other keepers, basic values): no pointer, map, slice, channel, function or foreign struct field that could carry values from one block (or query) to the next in process memory", 20)
	keeperFieldsRule(c, "C14/keepers-hold-no-state", nil)
	c.Rule("C14/audited-node-configuration", "the application constructor reads node-local configuration (app.toml, flags) only under audited keys, none of which reaches block processing", 2)
	appOptionsRule(c, "C14/audited-node-configuration")
	c.Extra["reachable_functions"] = len(fns)
	c.Extra["sites_examined"] = nsites
	c.Rule("C14/audit-table-live", "every audited entry still matches a reachable site", 15)
	for _, a := range audits {
		c.Req(a.hits > 0, "C14/audit-table-live", a.fn+"|"+a.kind, token.NoPos, "", "audited entry matches no reachable site any more (remove or update it)")
	}
	if os.Getenv("XLINT_C14_INVENTORY") != "" {
		for _, f := range fns {
			for _, s := range ndSites(c, f) {
				fmt.Printf("%-11s %-55s %s @%s\n", s.Kind, funcName(f), s.What, c.P.Pos(s.Pos))
			}
		}
	}
}

// zoneIndependentUses: every use of the Time value asks a question whose answer does not depend on its location.
func zoneIndependentUses(c *Check, v ssa.Value, depth int) bool {
	refs := v.Referrers()
	if refs == nil || depth > 4 {
		return false
	}
	okMethods := map[string]bool{"Unix": true, "UnixNano": true, "UnixMilli": true, "UnixMicro": true, "Before": true, "After": true, "Equal": true, "Sub": true, "IsZero": true, "UTC": true, "Compare": true}
	chain := map[string]bool{"Add": true, "AddDate": true, "Round": true, "Truncate": true} // result is again a Time in the same zone
	for _, r := range *refs {
		switch t := r.(type) {
		case ssa.CallInstruction:
			cf := c.P.resolveCallee(t.Common())
			if cf == nil || !strings.HasPrefix(funcName(cf), "time.(Time).") || len(t.Common().Args) == 0 {
				return false
			}
			switch {
			case okMethods[cf.Name()]:
			case chain[cf.Name()]:
				val, isVal := r.(ssa.Value)
				if !isVal || !zoneIndependentUses(c, val, depth+1) {
					return false
				}
			default:
				return false
			}
		case *ssa.Store:
			// spilled into a local that is only read back for further method calls
			al, isAlloc := t.Addr.(*ssa.Alloc)
			if !isAlloc || al.Referrers() == nil {
				return false
			}
			for _, u := range *al.Referrers() {
				if ld, isLoad := u.(*ssa.UnOp); isLoad {
					if !zoneIndependentUses(c, ld, depth+1) {
						return false
					}
				} else if u != ssa.Instruction(t) {
					return false
				}
			}
		case *ssa.Phi:
			if !zoneIndependentUses(c, t, depth+1) {
				return false
			}
		default:
			return false
		}
	}
	return true
}

// statefulKind classifies the type of a package-level variable that can hold hidden state ("" = plain data).
func statefulKind(t types.Type) string { return statefulKindD(t, 0) }

func statefulKindD(t types.Type, depth int) string {
	if depth > 3 {
		return ""
	}
	switch u := t.Underlying().(type) {
	case *types.Signature:
		return "function value"
	case *types.Chan:
		return "channel"
	case *types.Pointer:
		return statefulKindD(u.Elem(), depth+1)
	case *types.Interface:
		if nt, ok := t.(*types.Named); ok && nt.Obj().Pkg() != nil {
			p := nt.Obj().Pkg().Path()
			if p == "hash" || strings.HasPrefix(p, "crypto/") || strings.HasSuffix(p, "/sha3") {
				return "hash object"
			}
		}
	case *types.Struct:
		if nt, ok := t.(*types.Named); ok && nt.Obj().Pkg() != nil {
			p := nt.Obj().Pkg().Path()
			if p == "sync" || p == "sync/atomic" || strings.Contains(p, "lru") || strings.Contains(p, "/cache") {
				return p + " object"
			}
		}
		for i := 0; i < u.NumFields(); i++ {
			if k := statefulKindD(u.Field(i).Type(), depth+1); strings.HasSuffix(k, " object") && (strings.HasPrefix(k, "sync") || strings.Contains(k, "lru")) {
				return "struct holding a " + k
			}
		}
	}
	return ""
}
