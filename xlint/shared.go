package main

import (
	"fmt"
	"go/token"
	"go/types"
	"sort"
	"strings"

	"golang.org/x/tools/go/ssa"
)

// packetGenesisBinding: each field of the packet GenesisState is exported from, and imported into, its own key family
// with (src, dst, seq[, data]) in order. `which` selects the families to check ("" = all).
func packetGenesisBinding(c *Check, rule string, which ...string) {
	sel := func(f string) bool {
		if len(which) == 0 {
			return true
		}
		for _, w := range which {
			if w == f {
				return true
			}
		}
		return false
	}
	type fam struct {
		field, setter, getter string
		data                  bool
	}
	fams := []fam{
		{"Acknowledgements", "SetPacketAcknowledgement", "GetAllPacketAcks", true},
		{"Commitments", "SetPacketCommitment", "GetAllPacketCommitments", true},
		{"Receipts", "SetPacketReceipt", "GetAllPacketReceipts", false},
		{"SendSequences", "SetNextSequenceSend", "GetAllPacketSendSeqs", false},
	}
	ini := c.F("x/xibc/core/packet.InitGenesis")
	exp := c.F("x/xibc/core/packet.ExportGenesis")
	var expLit *Expr
	for _, r := range c.P.RetExprs(exp, 0) {
		expLit = r
	}
	for _, f := range fams {
		if !sel(f.field) {
			continue
		}
		el := "$2." + f.field + "[μ{0}]"
		args := map[int]string{0: "$1", 1: "$0", 2: el + ".SrcChain", 3: el + ".DstChain", 4: el + ".Sequence"}
		if f.data {
			args[5] = el + ".Data"
		}
		c.Spec(rule, Macros{}, FnSpec{Fn: "x/xibc/core/packet.InitGenesis", Effects: []Eff{{Label: "import " + f.field, Callee: "keeper.(Keeper)." + f.setter, N: 1, Args: args}}})
		got := ""
		if expLit != nil {
			got = c.P.Ex(exp).mkField(f.field, nil, expLit).String()
		}
		want := "packet/keeper.(Keeper)." + f.getter + "($1, $0)"
		c.Req(got == want, rule, "export "+f.field, exp.Pos(), got, fmt.Sprintf("ExportGenesis fills %s from %s instead of %s", f.field, trunc(got), want))
	}
	_ = ini
}

// abiTupleRule: (struct, ABI tuple) agreement for the given packet types (shared by C19 and C04).
func abiTupleRule(c *Check, rule string, tnames ...string) int {
	tables := tupleTables(c)
	pkg := c.P.Pkg("x/xibc/core/packet/types")
	nPairs := 0
	var pairNames []string
	for _, tname := range tnames {
		tn := pkg.Type(tname)
		if tn == nil {
			checkerFail("anchor unresolved: type %s%s", pkT, tname)
		}
		st := tn.Type().Underlying().(*types.Struct)
		for _, meth := range []string{"ABIPack", "ABIDecode"} {
			fn := c.P.FuncOpt(pkT + tname + "." + meth)
			if fn == nil {
				continue
			}
			c.Touch(fn)
			var tuple string
			for _, b := range fn.Blocks {
				for _, ins := range b.Instrs {
					if c.P.IsClone(ins) {
						continue
					}
					if u, ok := ins.(*ssa.UnOp); ok {
						if g, ok := u.X.(*ssa.Global); ok && strings.HasPrefix(g.Name(), "Tuple") {
							tuple = g.Name()
						}
					}
				}
			}
			comps, ok := tables[tuple]
			if !c.Req(ok && len(comps) > 0, rule, fmt.Sprintf("%s.%s uses a known tuple", tname, meth), fn.Pos(), tuple, "cannot determine the ABI tuple used by "+funcName(fn)) {
				continue
			}
			nPairs++
			pairNames = append(pairNames, tname+"."+meth+"↔"+tuple)
			covered := map[string]bool{}
			for _, comp := range comps {
				goName := abiToCamel(comp.Name)
				var fld *types.Var
				var tag string
				for i := 0; i < st.NumFields(); i++ {
					if st.Field(i).Name() == goName {
						fld = st.Field(i)
						tag = st.Tag(i)
					}
				}
				construct := fmt.Sprintf("%s.%s/%s.%s", tname, meth, tuple, comp.Name)
				if fld == nil {
					c.Bad(rule, construct, fn.Pos(), fmt.Sprintf("tuple component %q maps to Go field %q which %s does not have", comp.Name, goName, tname))
					continue
				}
				covered[goName] = true
				if meth == "ABIPack" {
					c.Req(typeStr(fld.Type()) == abiGoType(comp.Type), rule, construct, fld.Pos(), goName+" "+typeStr(fld.Type()), fmt.Sprintf("component %q has ABI type %s but field %s.%s has Go type %s", comp.Name, comp.Type, tname, goName, typeStr(fld.Type())))
				} else {
					key := jsonKey(fld.Name(), tag)
					c.Req(strings.EqualFold(key, comp.Name), rule, construct, fld.Pos(), "json key "+key, fmt.Sprintf("ABIDecode goes through JSON with key %q (the component name) but field %s.%s is matched by JSON key %q: the value is silently dropped on decode", comp.Name, tname, goName, key))
				}
			}
			for i := 0; i < st.NumFields(); i++ {
				f := st.Field(i)
				if !f.Exported() || strings.HasPrefix(f.Name(), "XXX_") || tname == "EventSendPacket" {
					// EventSendPacket mirrors the contract event PacketSent(bytes packet): only Packet is ABI data,
					// the other fields are derived indexing attributes of the cosmos event
					continue
				}
				c.Req(covered[f.Name()], rule, fmt.Sprintf("%s.%s/field %s covered by %s", tname, meth, f.Name(), tuple), f.Pos(), "", fmt.Sprintf("field %s.%s has no component in %s: it is outside the encoding (and outside the commitment)", tname, f.Name(), tuple))
			}
		}
	}
	c.Extra["abi_struct_pairs"] = pairNames
	return nPairs
}

// validatorsArePure: stateless validators (ValidateBasic / Validate) must not write through their receiver: a proposal
// or message is validated at submission and executed later from the same bytes, so an in-place rewrite (e.g. sorting one
// of two parallel slices) changes what is executed.
func validatorsArePure(c *Check, rule string, pkgFilter func(string) bool) int {
	n := 0
	mutators := []string{"sort.Strings", "sort.Slice", "sort.SliceStable", "sort.Sort", "sort.Stable", "sort.Ints"}
	for fn := range c.P.AllFuncs {
		if !inScope(fn) || len(fn.Blocks) == 0 || fn.Signature.Recv() == nil {
			continue
		}
		if fn.Name() != "ValidateBasic" && fn.Name() != "Validate" {
			continue
		}
		if pkgFilter != nil && !pkgFilter(fnPkgPath(fn)) {
			continue
		}
		if strings.HasSuffix(c.P.Fset.Position(fn.Pos()).Filename, ".pb.go") {
			continue
		}
		n++
		x := c.P.Ex(fn)
		bad := ""
		derivesFromRecv := func(v ssa.Value) bool {
			s := x.E(v).String()
			return strings.HasPrefix(s, "$0.") || strings.HasPrefix(s, "$0[")
		}
		for _, b := range fn.Blocks {
			for _, ins := range b.Instrs {
				switch v := ins.(type) {
				case *ssa.Store:
					if _, local := v.Addr.(*ssa.Alloc); local {
						continue
					}
					// only pointer receivers (or reference-typed fields) can leak a write
					if derivesFromRecv(v.Addr) {
						if _, isPtr := fn.Signature.Recv().Type().(*types.Pointer); isPtr {
							bad = "stores to " + x.E(v.Addr).String() + " at " + c.P.Pos(v.Pos())
						} else if ia, ok := v.Addr.(*ssa.IndexAddr); ok {
							_ = ia
							bad = "writes an element of " + x.E(v.Addr).String() + " (slices share their backing array) at " + c.P.Pos(v.Pos())
						}
					}
				case ssa.CallInstruction:
					if f := c.P.resolveCallee(v.Common()); f != nil {
						name := funcName(f)
						for _, m := range mutators {
							if name == m {
								for _, a := range v.Common().Args {
									if derivesFromRecv(stripConv(a)) {
										bad = "calls " + m + " on " + x.E(stripConv(a)).String() + " (in-place) at " + c.P.Pos(v.Pos())
									}
								}
							}
						}
					}
				}
			}
		}
		c.Req(bad == "", rule, funcName(fn)+" is pure", fn.Pos(), "no write through the receiver", "stateless validator mutates the value it validates: "+bad)
	}
	return n
}

// sharedMemoryWrites: writes to node-local memory that outlives the call (package-level variables, sync.Map, maps and
// fields reachable from a pointer receiver / global) inside state-machine code. Such state ignores store branching
// (cache contexts, failed transactions, dry runs) and differs between nodes.
func sharedMemoryWrites(c *Check, fn *ssa.Function) []string {
	var out []string
	x := c.P.Ex(fn)
	persistent := func(v ssa.Value) (string, bool) {
		s := x.E(v).String()
		if strings.HasPrefix(s, "g:") || strings.Contains(s, "(g:") {
			return s, true
		}
		if strings.HasPrefix(s, "$0.") {
			// a field of the receiver: persistent only through a pointer receiver or a reference-typed field
			return s, true
		}
		return s, false
	}
	for _, b := range fn.Blocks {
		for _, ins := range b.Instrs {
			switch v := ins.(type) {
			case *ssa.Store:
				if g, ok := v.Addr.(*ssa.Global); ok {
					out = append(out, "store to package variable "+g.Name()+" at "+c.P.Pos(v.Pos()))
				}
			case *ssa.MapUpdate:
				if s, ok := persistent(v.Map); ok {
					out = append(out, "map update on "+trunc(s)+" at "+c.P.Pos(v.Pos()))
				}
			case ssa.CallInstruction:
				if f := c.P.resolveCallee(v.Common()); f != nil {
					n := funcName(f)
					if strings.HasPrefix(n, "sync.(*Map).") && (strings.HasSuffix(n, ".Store") || strings.HasSuffix(n, ".LoadOrStore") || strings.HasSuffix(n, ".Delete") || strings.HasSuffix(n, ".LoadAndDelete") || strings.HasSuffix(n, ".Swap")) {
						out = append(out, n+" at "+c.P.Pos(v.Pos()))
					}
				}
			}
		}
	}
	return out
}

func jsonKey(fieldName, tag string) string {
	key := fieldName
	if i := strings.Index(tag, `json:"`); i >= 0 {
		rest := tag[i+6:]
		if j := strings.Index(rest, `"`); j >= 0 {
			n := strings.Split(rest[:j], ",")[0]
			if n == "-" {
				return ""
			}
			if n != "" {
				key = n
			}
		}
	}
	return key
}

// paramSetPairsRule: every NewParamSetPair binds the store key named after a field to the address of that very field,
// with the expected validator function itself (not a closure or bound method whose behaviour depends on a receiver).
func paramSetPairsRule(c *Check, rule, fnSpec string, validators map[string]string) {
	fn := c.F(fnSpec)
	n := 0
	for _, cs := range c.Calls(fn, "params/types.NewParamSetPair") {
		a := c.P.ArgExprs(cs)
		key, field, val := a[0].String(), a[1].String(), a[2].String()
		fname := strings.TrimPrefix(field, "$0.")
		n++
		c.Req(strings.HasPrefix(field, "$0.") && strings.HasSuffix(key, fname), rule, funcName(fn)+": key "+key+" ↔ field "+field, cs.Ins.Pos(), "", fmt.Sprintf("store key %s is bound to field %s: a governance parameter change of one flag would set the other", key, field))
		if want, ok := validators[fname]; ok {
			c.Req(val == want, rule, funcName(fn)+": validator of "+fname, cs.Ins.Pos(), val, fmt.Sprintf("validator of %s is %s, required %s (a receiver-dependent validator is bound to a zero value by ParamKeyTable and never validates)", fname, val, want))
		}
	}
	c.Req(n >= 2, rule, funcName(fn)+": pairs found", fn.Pos(), fmt.Sprint(n), "no NewParamSetPair calls found")
}

// allLogsProcessed: a post-transaction hook looks at every log of the receipt: no non-rejecting return sits inside
// the loop over receipt.Logs (a success return before the loop is exhausted silently drops the later events).
func allLogsProcessed(c *Check, rule, fnSpec string) {
	fn := c.F(fnSpec)
	fa := c.P.FA(fn)
	for i, r := range fa.NonRejectReturns() {
		conds := fa.PathCondStrings(r.Block())
		exhausted, inLoop := false, false
		for s := range conds {
			if strings.HasPrefix(s, "(len(") && strings.Contains(s, ".Logs) <= μ{0})") {
				exhausted = true
			}
			if strings.HasPrefix(s, "(μ{0} < len(") && strings.HasSuffix(s, ".Logs))") {
				inLoop = true
			}
		}
		_ = exhausted
		c.Req(!inLoop, rule, fmt.Sprintf("%s/all-logs-before-success#%d", funcName(fn), i), r.Pos(), "success only after the last log", "a success return is reachable before the loop over the receipt's logs is exhausted: later events of the same transaction are silently skipped")
	}
}

// keeperFieldsRule: a keeper is wiring only (store key, codec, parameter subspace, other keepers, names).  A field that
// can hold values across calls in process memory (pointer, map, slice, channel, function, sync/atomic or any other
// struct) makes block processing depend on what this node process did before, not only on genesis and blocks.
func keeperFieldsRule(c *Check, rule string, pkgFilter func(string) bool) int {
	n := 0
	for _, pk := range c.P.Pkgs {
		if pkgFilter != nil && !pkgFilter(pk.PkgPath) {
			continue
		}
		obj := pk.Types.Scope().Lookup("Keeper")
		if obj == nil {
			continue
		}
		st, ok := obj.Type().Underlying().(*types.Struct)
		if !ok {
			continue
		}
		for i := 0; i < st.NumFields(); i++ {
			f := st.Field(i)
			n++
			okT, why := wiringType(f.Type())
			c.Req(okT, rule, short(pk.PkgPath)+".Keeper."+f.Name(), f.Pos(), why, fmt.Sprintf("keeper field %s has type %s (%s): state kept in process memory survives between blocks and differs between nodes (restart, query load); consensus-relevant values belong in the store", f.Name(), typeStr(f.Type()), why))
		}
	}
	return n
}

func wiringType(t types.Type) (bool, string) {
	switch u := t.Underlying().(type) {
	case *types.Interface:
		return true, "interface (another keeper, codec, store key)"
	case *types.Basic:
		return true, "basic value set at construction"
	case *types.Struct:
		if nt, ok := t.(*types.Named); ok {
			if nt.Obj().Name() == "Keeper" && nt.Obj().Pkg() != nil && strings.HasPrefix(nt.Obj().Pkg().Path(), modPath) {
				return true, "embedded keeper (checked on its own)"
			}
			if nt.Obj().Name() == "Subspace" && nt.Obj().Pkg() != nil && strings.HasSuffix(nt.Obj().Pkg().Path(), "x/params/types") {
				return true, "parameter subspace (a handle on the params store)"
			}
		}
		_ = u
		return false, "struct value of another type"
	case *types.Pointer:
		return false, "pointer"
	case *types.Map:
		return false, "map"
	case *types.Slice:
		return false, "slice"
	case *types.Chan:
		return false, "channel"
	case *types.Signature:
		return false, "function value"
	}
	return false, "unsupported kind"
}

// appOptionsRule: the application constructor reads node-local configuration (app.toml / flags) only through the audited
// keys below; each is audited not to influence block results.
var auditedAppOptions = map[string]string{
	"\"evm.tracer\"":                      "EVM tracer of the ethermint keeper: only produces debug traces, off the state machine",
	"\"x-crisis-skip-assert-invariants\"": "crisis module: skips the invariant assertion at genesis (no state)",
}

func appOptionsRule(c *Check, rule string) int {
	app := c.F("app.NewTeleport")
	n := 0
	for _, cs := range c.P.CallsIn(app) {
		if !strings.HasSuffix(cs.Name, "AppOptions.Get") {
			continue
		}
		n++
		key := c.P.ArgExprs(cs)[1].String()
		why, ok := auditedAppOptions[key]
		c.Req(ok, rule, "appOpts.Get("+key+")", cs.Ins.Pos(), why, "the application constructor reads the node-local option "+key+", which is not in the audited list: a value from app.toml / command-line flags that reaches a keeper makes nodes with different configuration compute different results")
	}
	return n
}

// exportLoopsComplete: a function that collects state for the genesis export does not return successfully from inside
// its collecting loop (an early success return silently drops the remaining entries).
func exportLoopsComplete(c *Check, rule string, fns []*ssa.Function) int {
	n := 0
	for _, fn := range fns {
		if fn.Parent() != nil || len(fn.Blocks) == 0 {
			continue
		}
		res := fn.Signature.Results()
		collects := false
		for i := 0; i < res.Len(); i++ {
			if _, isSlice := res.At(i).Type().Underlying().(*types.Slice); isSlice {
				collects = true
			}
		}
		if !collects || !(strings.HasPrefix(fn.Name(), "GetAll") || strings.HasPrefix(fn.Name(), "Export")) {
			continue
		}
		fa := c.P.FA(fn)
		c.Touch(fn)
		for i, r := range fa.NonRejectReturns() {
			inLoop := ""
			for s := range fa.PathCondStrings(r.Block()) {
				if strings.HasPrefix(s, "(μ{0} < len(") || strings.HasPrefix(s, "iface:cosmos-sdk/types.Iterator.Valid(") {
					inLoop = s
				}
			}
			n++
			c.Req(inLoop == "", rule, fmt.Sprintf("%s/return#%d outside the collecting loop", funcName(fn), i), r.Pos(), "", "a successful return sits inside the collecting loop (under "+trunc(inLoop)+"): the entries after the first one that takes this exit are missing from the exported genesis")
		}
	}
	return n
}

// neverBefore: no execution of fn runs a call to `first` and later a call to `then` (control-flow reachability between the
// call sites; both must exist).
func neverBefore(c *Check, rule string, fn *ssa.Function, first, then, okDetail, badDetail string) {
	as, bs := c.Calls(fn, first), c.Calls(fn, then)
	construct := funcName(fn) + "/" + first + " never precedes " + then
	if len(as) == 0 || len(bs) == 0 {
		c.Bad(rule, construct, fn.Pos(), fmt.Sprintf("%d call(s) of %s and %d of %s in %s: both are required", len(as), first, len(bs), then, funcName(fn)))
		return
	}
	fa := c.P.FA(fn)
	ok := true
	pos := as[0].Ins.Pos()
	for _, a := range as {
		for _, b := range bs {
			ab, bb := a.Ins.Block(), b.Ins.Block()
			reach := false
			if ab == bb {
				reach = instrIndex(a.Ins) < instrIndex(b.Ins) || fa.inCycle(ab)
			} else {
				for _, s := range ab.Succs {
					if s == bb || fa.reachFrom(s)[bb.Index] {
						reach = true
					}
				}
			}
			if reach {
				ok = false
				pos = a.Ins.Pos()
			}
		}
	}
	c.Req(ok, rule, construct, pos, okDetail, badDetail)
}

// nothingBeforeValidity: in a light client's CheckHeaderAndUpdateState every state-changing helper (set*/delete*/update,
// pruning included) runs only after checkValidity accepted the header: a refused header leaves the client untouched,
// and a header is judged against the state as it was before any pruning.
func nothingBeforeValidity(c *Check, rule, fnSpec string) {
	fn := c.F(fnSpec)
	fa := c.P.FA(fn)
	n, kv := 0, 0
	for _, cs := range c.P.CallsIn(fn) {
		callee := c.P.resolveCallee(cs.Ins.Common())
		label := ""
		switch {
		case callee != nil && inTeleport(callee):
			nm := strings.ToLower(callee.Name())
			if strings.HasPrefix(nm, "set") || strings.HasPrefix(nm, "delete") || nm == "update" || strings.HasPrefix(nm, "restrict") {
				label = callee.Name()
			}
		case strings.HasSuffix(cs.Name, "types.KVStore.Set") || strings.HasSuffix(cs.Name, "types.KVStore.Delete"):
			kv++
			label = cs.Name[strings.LastIndex(cs.Name, "KVStore"):] + "#" + fmt.Sprint(kv) // (a write of an inlined helper)
		}
		if label == "" {
			continue
		}
		n++
		ok := false
		for s := range fa.PathCondStrings(cs.Ins.Block()) {
			if strings.Contains(s, "types.checkValidity(") && strings.HasSuffix(s, " == nil)") {
				ok = true
			}
		}
		c.Req(ok, rule, fmt.Sprintf("%s/%s after checkValidity", funcName(fn), label), cs.Ins.Pos(), "", label+" can run before (or without) a successful checkValidity: the header is validated against an already modified store, or a refused header leaves changes behind")
	}
	c.Req(n > 0, rule, funcName(fn)+"/state-changing helpers found", fn.Pos(), fmt.Sprint(n), "no state-changing helper recognised in "+funcName(fn))
}

// staleFieldReads: a function that overwrites a field of the object it is given (clientState.Validators = …) does not
// keep using, after the overwrite, a value it read from that field before it (a hoisted `limit := len(cs.Validators)/2+1`
// that is still used once the validator set was switched).
func staleFieldReads(c *Check, rule, fnSpec string) {
	fn := c.F(fnSpec)
	fa := c.P.FA(fn)
	type fieldKey struct {
		base  ssa.Value
		field int
	}
	stores := map[fieldKey][]*ssa.Store{}
	loads := map[fieldKey][]*ssa.UnOp{}
	for _, b := range fn.Blocks {
		for _, ins := range b.Instrs {
			switch t := ins.(type) {
			case *ssa.Store:
				if fad, ok := t.Addr.(*ssa.FieldAddr); ok {
					if _, isParam := fad.X.(*ssa.Parameter); isParam {
						stores[fieldKey{fad.X, fad.Field}] = append(stores[fieldKey{fad.X, fad.Field}], t)
					}
				}
			case *ssa.UnOp:
				if fad, ok := t.X.(*ssa.FieldAddr); ok && t.Op == token.MUL {
					if _, isParam := fad.X.(*ssa.Parameter); isParam {
						loads[fieldKey{fad.X, fad.Field}] = append(loads[fieldKey{fad.X, fad.Field}], t)
					}
				}
			}
		}
	}
	after := func(a, b ssa.Instruction) bool { // b can execute after a
		if a.Block() == b.Block() {
			return instrIndex(a) < instrIndex(b) || fa.inCycle(a.Block())
		}
		for _, s := range a.Block().Succs {
			if s == b.Block() || fa.reachFrom(s)[b.Block().Index] {
				return true
			}
		}
		return false
	}
	n := 0
	for k, sts := range stores {
		st := derefStruct(k.base.Type())
		fname := "?"
		if st != nil {
			fname = st.Field(k.field).Name()
		}
		for _, s := range sts {
			for _, ld := range loads[k] {
				if !after(ld, s) || after(s, ld) && !fa.inCycle(ld.Block()) && after(s, ld) && !after(ld, s) {
					continue // the read is not before the overwrite
				}
				if !after(ld, s) {
					continue
				}
				// uses of the loaded value (through pure operations) that can execute after the store
				seen := map[ssa.Value]bool{}
				var stale ssa.Instruction
				var walk func(v ssa.Value, d int)
				walk = func(v ssa.Value, d int) {
					if d > 6 || seen[v] || stale != nil {
						return
					}
					seen[v] = true
					refs := v.Referrers()
					if refs == nil {
						return
					}
					for _, u := range *refs {
						if u == ssa.Instruction(s) {
							continue
						}
						if after(s, u) && !(u.Block() == s.Block() && instrIndex(u) < instrIndex(s)) {
							switch u.(type) {
							case *ssa.BinOp, *ssa.UnOp, *ssa.Convert, *ssa.ChangeType, *ssa.Phi:
							default:
								stale = u
								return
							}
						}
						if uv, ok := u.(ssa.Value); ok {
							switch u.(type) {
							case *ssa.BinOp, *ssa.UnOp, *ssa.Convert, *ssa.ChangeType, *ssa.Phi, *ssa.Call:
								if _, isCall := u.(*ssa.Call); isCall {
									if !strings.HasPrefix(c.P.Ex(fn).E(uv).String(), "len(") {
										continue
									}
								}
								walk(uv, d+1)
							}
						}
					}
				}
				walk(ld, 0)
				n++
				c.Req(stale == nil, rule, fmt.Sprintf("%s/field %s read at %s", funcName(fn), fname, c.P.Pos(ld.Pos())), ld.Pos(), "not used after the overwrite", fmt.Sprintf("a value read from %s before it is overwritten (%s) is still used afterwards (%s): the later step works on the replaced value", fname, c.P.Pos(s.Pos()), func() string {
					if stale != nil {
						return c.P.Pos(stale.Pos())
					}
					return ""
				}()))
			}
		}
	}
	c.Req(len(stores) > 0, rule, funcName(fn)+"/overwrites a field of its argument", fn.Pos(), fmt.Sprint(len(stores), " field(s), ", n, " earlier read(s) checked"), "no field store found (anchor drifted)")
}

// staleNilError: on the non-nil edge of one error, a function returns another error value that is provably nil there
// (`x, callErr := f(); if callErr != nil { return nil, Wrap(err, "…") }` with the earlier err already tested nil):
// the failure is reported as success.  An explicit `return nil` on an error edge is a visible decision and not flagged.
func staleNilError(c *Check, rule string, fns []*ssa.Function) int {
	n := 0
	if c.P.inl == nil {
		return 0
	}
	in := c.P.inl
	for _, fn := range fns {
		if len(fn.Blocks) == 0 {
			continue
		}
		res := fn.Signature.Results()
		if res.Len() == 0 || !isErrorType(res.At(res.Len()-1).Type()) {
			continue
		}
		for _, b := range fn.Blocks {
			r, ok := lastInstr(b).(*ssa.Return)
			if !ok || c.P.IsClone(r) || len(r.Results) != res.Len() {
				continue
			}
			rv := r.Results[len(r.Results)-1]
			if _, isConst := rv.(*ssa.Const); isConst {
				continue
			}
			inner := rv
			if call, isCall := rv.(*ssa.Call); isCall {
				if callee := call.Call.StaticCallee(); callee != nil && len(call.Call.Args) > 0 {
					nm := funcName(c.P.unwrap(callee))
					if strings.HasSuffix(nm, "errors.Wrap") || strings.HasSuffix(nm, "errors.Wrapf") {
						inner = call.Call.Args[0]
					}
				}
			}
			if in.classify(fn, inner, b, 0) != "nil" {
				continue
			}
			// is this return on the non-nil edge of some other error?
			var other ssa.Value
			for _, ib := range fn.Blocks {
				iff, ok := lastInstr(ib).(*ssa.If)
				if !ok || len(ib.Succs) != 2 {
					continue
				}
				bo, ok := iff.Cond.(*ssa.BinOp)
				if !ok || (bo.Op != token.NEQ && bo.Op != token.EQL) {
					continue
				}
				var x ssa.Value
				if isNilConst(bo.Y) {
					x = bo.X
				} else if isNilConst(bo.X) {
					x = bo.Y
				}
				if x == nil || !isErrorType(x.Type()) || x == inner {
					continue
				}
				nonNilSucc := 0
				if bo.Op == token.EQL {
					nonNilSucc = 1
				}
				if edgeDominates(fn, ib, nonNilSucc, b) {
					other = x
				}
			}
			if other == nil {
				continue
			}
			n++
			x := c.P.Ex(fn)
			c.Bad(rule, fmt.Sprintf("%s/returns a nil error on the failure edge of %s", funcName(fn), trunc(x.E(other).String())), r.Pos(),
				"on the path where "+trunc(x.E(other).String())+" is non-nil the function returns "+trunc(x.E(rv).String())+", which is nil there (tested earlier): the failure is reported as success and the caller carries on")
		}
	}
	return n
}

// fnsInPackages: in-scope functions whose package path contains one of the fragments (sorted by name).
func fnsInPackages(c *Check, frags ...string) []*ssa.Function {
	var out []*ssa.Function
	for fn := range c.P.AllFuncs {
		if !inScope(fn) || len(fn.Blocks) == 0 {
			continue
		}
		pp := fnPkgPath(fn)
		for _, f := range frags {
			if strings.Contains(pp, f) {
				out = append(out, fn)
				break
			}
		}
	}
	sort.Slice(out, func(i, j int) bool { return funcName(out[i]) < funcName(out[j]) })
	return out
}

// noFailureAsSuccess wraps staleNilError with the bookkeeping obligation (the rule's expected violation count is zero).
func noFailureAsSuccess(c *Check, rule string, fns []*ssa.Function) {
	n := staleNilError(c, rule, fns)
	c.Req(len(fns) > 0, rule, "functions scanned", token.NoPos, fmt.Sprintf("%d function(s), %d finding(s)", len(fns), n), "no function in scope (anchor drifted)")
}

// constructorBindings: a constructor that fills a struct literal from its parameters gives each field the parameter of
// its own name: no parameter whose name is that of field G ends up in field F (two same-typed arguments swapped).
func constructorBindings(c *Check, rule string, pkgFrag string) {
	n := 0
	for fn := range c.P.AllFuncs {
		if !inScope(fn) || len(fn.Blocks) == 0 || fn.Signature.Recv() != nil || !strings.Contains(fnPkgPath(fn), pkgFrag) || !strings.HasPrefix(fn.Name(), "New") {
			continue
		}
		rets := c.P.RetExprs(fn, 0)
		if len(rets) != 1 || rets[0].Op != "lit" {
			continue
		}
		fields := map[string]bool{}
		for _, kv := range rets[0].Args {
			if kv.Op == "kv" {
				fields[strings.ToLower(kv.Name)] = true
			}
		}
		for _, kv := range rets[0].Args {
			if kv.Op != "kv" || kv.Args[0].Op != "param" {
				continue
			}
			var i int
			if _, err := fmt.Sscanf(kv.Args[0].Name, "$%d", &i); err != nil || i >= len(fn.Params) {
				continue
			}
			pname := strings.ToLower(fn.Params[i].Name())
			n++
			wrong := pname != strings.ToLower(kv.Name) && fields[pname]
			c.Req(!wrong, rule, fmt.Sprintf("%s/field %s", funcName(fn), kv.Name), fn.Pos(), "bound to parameter "+fn.Params[i].Name(), fmt.Sprintf("field %s is filled from parameter %q although the struct has a field of that name: two arguments of the same type are crossed", kv.Name, fn.Params[i].Name()))
		}
	}
	c.Req(n > 0, rule, "constructor fields examined", token.NoPos, fmt.Sprint(n), "no constructor literal found")
}

// resultUsedAfterErrorCheck: a pointer returned together with an error (p, err := f()) is dereferenced only where
// err == nil (or p != nil) has been established: on the error path the pointer is nil and the dereference panics.
func resultUsedAfterErrorCheck(c *Check, rule string, fns []*ssa.Function) {
	n, bad := 0, 0
	for _, fn := range fns {
		if len(fn.Blocks) == 0 {
			continue
		}
		fa := c.P.FA(fn)
		for _, b := range fn.Blocks {
			for _, ins := range b.Instrs {
				call, ok := ins.(*ssa.Call)
				if !ok || c.P.IsClone(call) {
					continue
				}
				tup, ok := call.Type().(*types.Tuple)
				if !ok || tup.Len() != 2 || !isErrorType(tup.At(1).Type()) {
					continue
				}
				if _, isPtr := tup.At(0).Type().Underlying().(*types.Pointer); !isPtr {
					continue
				}
				var p, e ssa.Value
				if refs := call.Referrers(); refs != nil {
					for _, r := range *refs {
						if ex, ok := r.(*ssa.Extract); ok {
							if ex.Index == 0 {
								p = ex
							} else {
								e = ex
							}
						}
					}
				}
				if p == nil || e == nil || p.Referrers() == nil {
					continue
				}
				x := fa.X
				okConds := []string{"(" + x.E(e).String() + " == nil)", "(" + x.E(p).String() + " != nil)"}
				for _, u := range *p.Referrers() {
					deref := false
					switch t := u.(type) {
					case *ssa.FieldAddr:
						deref = t.X == p
					case *ssa.UnOp:
						deref = t.Op == token.MUL && t.X == p
					}
					if !deref {
						continue
					}
					n++
					conds := fa.PathCondStrings(u.Block())
					if conds[okConds[0]] || conds[okConds[1]] {
						continue
					}
					bad++
					c.Bad(rule, fmt.Sprintf("%s/%s dereferenced without its error ruled out", funcName(fn), trunc(x.E(p).String())), u.Pos(),
						"the pointer result of "+trunc(x.E(call).String())+" is dereferenced on a path where its error may be non-nil (then the pointer is nil): a Go panic")
				}
			}
		}
	}
	c.Req(n > 0, rule, "dereferences of (pointer, error) results examined", token.NoPos, fmt.Sprintf("%d dereference(s), %d unguarded", n, bad), "no (pointer, error) result is dereferenced in scope (anchor drifted)")
}

// stopValue: the boolean with which the callback parameter #i of g ends g's iteration ("true", "false", or "" when g
// does not branch out of its loop on the callback's result). The callback's call site is followed through one
// forwarding level; the stop value is the outcome whose branch cannot come back to the call.
func stopValue(p *Program, g *ssa.Function, i int, depth int) string {
	if g == nil || len(g.Blocks) == 0 || i >= len(g.Params) || depth > 3 {
		return ""
	}
	param := g.Params[i]
	fa := p.FA(g)
	for _, b := range g.Blocks {
		for _, ins := range b.Instrs {
			call, ok := ins.(*ssa.Call)
			if !ok {
				continue
			}
			if call.Call.Value != ssa.Value(param) {
				if h := p.resolveCallee(&call.Call); h != nil && inTeleport(h) && h != g {
					for j, a := range call.Call.Args {
						if a == ssa.Value(param) {
							if s := stopValue(p, h, j, depth+1); s != "" {
								return s
							}
						}
					}
				}
				continue
			}
			if call.Referrers() == nil {
				continue
			}
			for _, r := range *call.Referrers() {
				neg := false
				var iff *ssa.If
				switch t := r.(type) {
				case *ssa.If:
					iff = t
				case *ssa.UnOp:
					if t.Op == token.NOT && t.Referrers() != nil {
						for _, rr := range *t.Referrers() {
							if x, ok := rr.(*ssa.If); ok {
								iff, neg = x, true
							}
						}
					}
				}
				if iff == nil {
					continue
				}
				tb, fb := iff.Block().Succs[0], iff.Block().Succs[1]
				back := func(s *ssa.BasicBlock) bool { return s == b || fa.reachFrom(s)[b.Index] }
				switch {
				case !back(tb) && back(fb):
					if neg {
						return "false"
					}
					return "true"
				case back(tb) && !back(fb):
					if neg {
						return "true"
					}
					return "false"
				}
			}
		}
	}
	return ""
}

// collectorsNeverStop: a closure that collects into a captured variable and is handed to an iteration helper never
// returns the value with which that helper ends the iteration: the entries after the first collected one would be missing.
func collectorsNeverStop(c *Check, rule string, fns []*ssa.Function) int {
	n := 0
	for _, fn := range fns {
		if len(fn.Blocks) == 0 {
			continue
		}
		ord := map[*ssa.Function]int{}
		for _, cs := range c.P.CallsInOwn(fn) {
			g := c.P.resolveCallee(cs.Ins.Common())
			if g == nil || !inTeleport(g) {
				continue
			}
			ord[g]++
			for i, a := range cs.Ins.Common().Args {
				mc, ok := a.(*ssa.MakeClosure)
				if !ok {
					continue
				}
				cl := mc.Fn.(*ssa.Function)
				res := cl.Signature.Results()
				if res.Len() != 1 || !types.Identical(res.At(0).Type().Underlying(), types.Typ[types.Bool]) {
					continue
				}
				collects := false
				for _, b := range cl.Blocks {
					for _, ins := range b.Instrs {
						if st, ok := ins.(*ssa.Store); ok {
							if _, isFree := st.Addr.(*ssa.FreeVar); isFree {
								if _, isSlice := st.Val.Type().Underlying().(*types.Slice); isSlice {
									collects = true
								}
							}
						}
					}
				}
				if !collects {
					continue
				}
				stop := stopValue(c.P, g, i, 0)
				if stop == "" {
					continue
				}
				n++
				c.Touch(cl)
				bad := token.NoPos
				for _, b := range cl.Blocks {
					ret, ok := b.Instrs[len(b.Instrs)-1].(*ssa.Return)
					if !ok || len(ret.Results) != 1 {
						continue
					}
					vals := []ssa.Value{ret.Results[0]}
					if ph, ok := ret.Results[0].(*ssa.Phi); ok {
						vals = ph.Edges
					}
					for _, v := range vals {
						if k, ok := v.(*ssa.Const); !ok || k.Value == nil || k.Value.String() == stop {
							bad = ret.Pos()
						}
					}
				}
				c.Req(bad == token.NoPos, rule, fmt.Sprintf("%s/collector passed to %s#%d", funcName(fn), funcName(g), ord[g]), cs.Ins.Pos(), "never returns "+stop+" (the value that ends "+funcName(g)+")",
					"the collecting callback can return "+stop+", which ends the iteration of "+funcName(g)+": entries after that one are not collected")
			}
		}
	}
	return n
}

// noRetainedLoopVarAddress: a variable that lives across the iterations of a loop and is assigned anew in each of them
// (a range / for variable under the pre-1.22 semantics of this module's go directive, or a variable declared before
// the loop) never has its address kept beyond the iteration — stored in a map, slice, struct or captured by a stored
// closure: every kept pointer would name the one variable, i.e. the value of the last iteration.
func noRetainedLoopVarAddress(c *Check, rule string, fns []*ssa.Function) int {
	n := 0
	for _, fn := range fns {
		if len(fn.Blocks) == 0 || isGeneratedFn(c.P, fn) {
			continue
		}
		fa := c.P.FA(fn)
		for _, b := range fn.Blocks {
			for _, ins := range b.Instrs {
				a, ok := ins.(*ssa.Alloc)
				if !ok || c.P.IsClone(a) || fa.inCycle(b) || a.Referrers() == nil {
					continue
				}
				assignedInLoop := false
				for _, r := range *a.Referrers() {
					if st, ok := r.(*ssa.Store); ok && st.Addr == ssa.Value(a) && fa.inCycle(st.Block()) && !c.P.IsClone(st) {
						assignedInLoop = true
					}
				}
				if !assignedInLoop {
					continue
				}
				n++
				var kept ssa.Instruction
				var visit func(p ssa.Value, depth int)
				visit = func(p ssa.Value, depth int) {
					if p.Referrers() == nil || depth > 3 {
						return
					}
					for _, r := range *p.Referrers() {
						if !fa.inCycle(r.Block()) {
							continue
						}
						switch t := r.(type) {
						case *ssa.Store:
							if t.Val == p && t.Addr != ssa.Value(a) && keepsBeyondCall(t.Addr) {
								kept = t
							}
						case *ssa.MapUpdate:
							if t.Value == p || t.Key == p {
								kept = t
							}
						case *ssa.MakeInterface:
							visit(t, depth+1)
						case *ssa.FieldAddr:
							if t.X == p {
								visit(t, depth+1)
							}
						case *ssa.IndexAddr:
							if t.X == p {
								visit(t, depth+1)
							}
						case *ssa.MakeClosure:
							visit(t, depth+1)
						case *ssa.Go, *ssa.Defer:
							kept = r
						}
					}
				}
				visit(a, 0)
				name := a.Comment
				if name == "" {
					name = "variable"
				}
				pos := a.Pos()
				if kept != nil {
					pos = kept.Pos()
				}
				c.Req(kept == nil, rule, funcName(fn)+"/"+name, pos, "address not kept across iterations",
					"the address of "+name+", one variable for all iterations of the loop (go directive below 1.22), is kept beyond the iteration: every kept pointer sees the value of the last iteration")
			}
		}
	}
	return n
}

// keepsBeyondCall: a store through this address outlives the statement: anything but the backing array of a variadic
// argument list that is handed to a call other than append.
func keepsBeyondCall(addr ssa.Value) bool {
	ia, ok := addr.(*ssa.IndexAddr)
	if !ok {
		return true
	}
	arr, ok := ia.X.(*ssa.Alloc)
	if !ok || arr.Referrers() == nil {
		return true
	}
	for _, r := range *arr.Referrers() {
		sl, ok := r.(*ssa.Slice)
		if !ok || sl.Referrers() == nil {
			continue
		}
		for _, u := range *sl.Referrers() {
			call, ok := u.(ssa.CallInstruction)
			if !ok {
				return true
			}
			if bi, ok := call.Common().Value.(*ssa.Builtin); ok && bi.Name() == "append" {
				return true
			}
		}
		return false
	}
	return true
}

// noSwallowedPanic: a function with results does not defer a recover() that lets the function continue to its caller:
// after a recovered panic a function with unnamed results returns their zero values — a nil error is "verified", a nil
// acknowledgement is "no acknowledgement". A deferred closure that re-panics on every path after recover() is fine; so is
// one that stores to a named result of the function before returning.
func noSwallowedPanic(c *Check, rule string, fns []*ssa.Function) int {
	n := 0
	for _, fn := range fns {
		if len(fn.Blocks) == 0 || fn.Signature.Results().Len() == 0 || isGeneratedFn(c.P, fn) {
			continue
		}
		n++
		for _, b := range fn.Blocks {
			for _, ins := range b.Instrs {
				d, ok := ins.(*ssa.Defer)
				if !ok || c.P.IsClone(d) {
					continue
				}
				var cl *ssa.Function
				switch v := d.Call.Value.(type) {
				case *ssa.MakeClosure:
					cl, _ = v.Fn.(*ssa.Function)
				case *ssa.Function:
					cl = v
				}
				if cl == nil || len(cl.Blocks) == 0 {
					continue
				}
				var rec *ssa.Call
				for _, cb := range cl.Blocks {
					for _, ci := range cb.Instrs {
						if call, ok := ci.(*ssa.Call); ok {
							if bi, ok := call.Call.Value.(*ssa.Builtin); ok && bi.Name() == "recover" {
								rec = call
							}
						}
					}
				}
				if rec == nil {
					continue
				}
				// can the closure return normally after recover()? (blocks reachable from the recover call that end in Return)
				returns := false
				storesResult := false
				seen := map[*ssa.BasicBlock]bool{}
				var walk func(x *ssa.BasicBlock)
				walk = func(x *ssa.BasicBlock) {
					if seen[x] {
						return
					}
					seen[x] = true
					for _, xi := range x.Instrs {
						if st, ok := xi.(*ssa.Store); ok {
							if fv, ok := st.Addr.(*ssa.FreeVar); ok && namedResult(fn, cl, fv) {
								storesResult = true
							}
						}
					}
					if _, ok := x.Instrs[len(x.Instrs)-1].(*ssa.Return); ok {
						returns = true
					}
					for _, s := range x.Succs {
						walk(s)
					}
				}
				walk(rec.Block())
				c.Req(!returns || storesResult, rule, funcName(fn)+"/deferred recover", d.Pos(), "re-panics or sets a named result",
					"a deferred recover() lets "+funcName(fn)+" return normally after a panic without setting a named result: the caller receives zero values (a nil error reads as success, a nil acknowledgement as none)")
			}
		}
	}
	c.Req(n > 0, rule, "functions with results examined for a deferred recover()", token.NoPos, fmt.Sprint(n, " function(s)"), "no function in scope (anchor drifted)")
	return n
}

// namedResult: the free variable of closure cl is bound to the cell of a named result of fn.
func namedResult(fn, cl *ssa.Function, fv *ssa.FreeVar) bool {
	idx := -1
	for i, v := range cl.FreeVars {
		if v == fv {
			idx = i
		}
	}
	if idx < 0 {
		return false
	}
	res := fn.Signature.Results()
	for i := 0; i < res.Len(); i++ {
		if res.At(i).Name() != "" && res.At(i).Name() == fv.Name() {
			return true
		}
	}
	return false
}

// idOnlyOfFoundPair: TokenPair.GetID indexes Denoms[0]; on the zero pair that GetTokenPair returns together with
// found == false it panics. Every GetID call whose receiver is (derived from) the pair result of a GetTokenPair call is
// therefore dominated by that call's found result being true.
func idOnlyOfFoundPair(c *Check, rule string, fns []*ssa.Function) int {
	n := 0
	for _, fn := range fns {
		if len(fn.Blocks) == 0 {
			continue
		}
		fa := c.P.FA(fn)
		for _, cs := range c.P.CallsInOwn(fn) {
			if !strings.HasSuffix(cs.Name, "aggregate/types.(TokenPair).GetID") {
				continue
			}
			recv := c.P.ArgExprs(cs)[0].String()
			i := strings.Index(recv, "aggregate/keeper.(Keeper).GetTokenPair(")
			if i < 0 {
				continue
			}
			// the call expression ends at the matching parenthesis
			depth, j := 0, i
			for ; j < len(recv); j++ {
				if recv[j] == '(' {
					depth++
				} else if recv[j] == ')' {
					depth--
					if depth == 0 && j > i+len("aggregate/keeper.(Keeper).GetTokenPair") {
						break
					}
				}
			}
			if j >= len(recv) || !strings.HasPrefix(recv[j+1:], "#0") {
				continue
			}
			call := recv[i : j+1]
			n++
			conds := fa.PathCondStrings(cs.Ins.Block())
			c.Req(conds[call+"#1"], rule, fmt.Sprintf("%s/GetID of %s", funcName(fn), trunc(call)), cs.Ins.Pos(), "under found",
				"TokenPair.GetID is called on the pair returned by "+trunc(call)+" on a path where its found result has not been tested true: for an unknown id the pair is empty and GetID panics (index out of range)")
		}
	}
	return n
}
