package main

import (
	"fmt"
	"go/constant"
	"go/token"
	"go/types"
	"regexp"
	"sort"
	"strconv"
	"strings"

	"golang.org/x/tools/go/ssa"
)

func init() { register("C13", c13) }

// normShape abstracts a full key shape: store parameters become the client-store prefix, holes keep only their verb.
func normShape(s string) string {
	rs := []rune(s)
	var sb strings.Builder
	for i := 0; i < len(rs); i++ {
		if rs[i] != '⟨' {
			sb.WriteRune(rs[i])
			continue
		}
		depth, j := 0, i
		for ; j < len(rs); j++ {
			if rs[j] == '⟨' {
				depth++
			} else if rs[j] == '⟩' {
				depth--
				if depth == 0 {
					break
				}
			}
		}
		inner := string(rs[i+1 : j])
		verb := inner
		if k := strings.Index(inner, ":"); k >= 0 {
			verb = inner[:k]
		}
		switch verb {
		case "store":
			sb.WriteString("clients/⟨s⟩/")
		case "const":
			sb.WriteString("⟨" + inner + "⟩")
		case "v":
			sb.WriteString("⟨s⟩") // a value spliced in as is and a %s hole are the same kind of component
		default:
			sb.WriteString("⟨" + verb + "⟩")
		}
		i = j
	}
	return sb.String()
}

type famRow struct {
	exporter string // function spec of the reader that exports the family ("" = none)
	via      string // literal prefix the exporter must be invoked with when its own prefix is a parameter
	importer string // function spec of the writer used on import
	derived  bool   // index family re-derived on import from another exported family
}

const (
	tmT  = "x/xibc/clients/light-clients/tendermint/types."
	bscT = "x/xibc/clients/light-clients/bsc/types."
	ethT = "x/xibc/clients/light-clients/eth/types."
	tssT = "x/xibc/clients/tss-client/types."
)

var families = map[string]famRow{
	"chainName":               {exporter: clKeeper + "Keeper.GetChainName", importer: clKeeper + "Keeper.SetChainName"},
	"relayers⟨s⟩":             {exporter: clKeeper + "Keeper.GetAllRelayers", importer: clKeeper + "Keeper.RegisterRelayers"},
	"clients/⟨s⟩/clientState": {exporter: clKeeper + "Keeper.IterateClients", importer: clKeeper + "Keeper.SetClientState"},
	"clients/⟨s⟩/consensusStates/⟨be8⟩⟨be8⟩":               {exporter: clKeeper + "Keeper.IterateConsensusStates", importer: clKeeper + "Keeper.SetClientConsensusState"},
	"clients/⟨s⟩/consensusStates/⟨be8⟩⟨be8⟩/processedTime": {exporter: tmT + "IterateProcessedTime", importer: clKeeper + "Keeper.SetAllClientMetadata"},
	"clients/⟨s⟩/iterateConsensusStates⟨slice⟩":            {exporter: "", importer: clKeeper + "Keeper.SetAllClientMetadata"},
	"clients/⟨s⟩/recentSingers/⟨s⟩":                        {exporter: bscT + "IteratorTraversal", via: "recentSingers", importer: clKeeper + "Keeper.SetAllClientMetadata"},
	"clients/⟨s⟩/pendingValidators":                        {exporter: bscT + "IteratorTraversal", via: "pendingValidators", importer: clKeeper + "Keeper.SetAllClientMetadata"},
	"clients/⟨s⟩/ethHeaderIndex/⟨s⟩⟨d⟩":                    {exporter: ethT + "IteratorEthMetaDataByPrefix", via: "ethHeaderIndex", importer: clKeeper + "Keeper.SetAllClientMetadata"},
	"clients/⟨s⟩/ethRootMain/⟨s⟩⟨d⟩":                       {exporter: ethT + "IteratorEthMetaDataByPrefix", via: "ethRootMain", importer: clKeeper + "Keeper.SetAllClientMetadata"},
	"nextSequenceSend/⟨s⟩/⟨s⟩":                             {exporter: pkKeeper + "Keeper.GetAllPacketSendSeqs", importer: pkKeeper + "Keeper.SetNextSequenceSend"},
	"commitments/⟨s⟩/⟨s⟩/sequences/⟨d⟩":                    {exporter: pkKeeper + "Keeper.IteratePacketCommitment", importer: pkKeeper + "Keeper.SetPacketCommitment"},
	"receipts/⟨s⟩/⟨s⟩/sequences/⟨d⟩":                       {exporter: pkKeeper + "Keeper.IteratePacketReceipt", importer: pkKeeper + "Keeper.SetPacketReceipt"},
	"acks/⟨s⟩/⟨s⟩/sequences/⟨d⟩":                           {exporter: pkKeeper + "Keeper.IteratePacketAcknowledgement", importer: pkKeeper + "Keeper.SetPacketAcknowledgement"},
	"⟨const:1⟩⟨s⟩":                                         {exporter: "x/aggregate/keeper.Keeper.GetAllTokenPairs", importer: "x/aggregate/keeper.Keeper.SetTokenPair"},
	"⟨const:2⟩⟨s⟩":                                         {derived: true, importer: "x/aggregate/keeper.Keeper.SetERC20Map"},
	"⟨const:3⟩⟨s⟩":                                         {derived: true, importer: "x/aggregate/keeper.Keeper.SetDenomMap"},
}

func c13(c *Check) {
	c.Declined = []string{
		"value-level equality of stores before export and after import (runtime values)",
		"idempotence of export as behaviour; the structural clauses are: every written family is exported and re-imported, readers tokenise keys soundly, genesis fields are all exported and consumed, sibling ClientType constants agree",
		"parameters (x/params subspace round trip, cosmos-sdk)",
	}
	c.Trusted = []string{"cosmos-sdk KVStore prefix iteration order and semantics", "protobuf (un)marshalling of genesis types", "CHA call graph (x/tools) for reachability from Export/InitGenesis", "light-client functions that take a `store` parameter are always handed the client's prefix store (clients/<chain>/)"}

	exportRoots := []*ssa.Function{c.F("x/xibc.ExportGenesis"), c.F("x/aggregate.ExportGenesis"), c.F("x/rvesting/keeper.Keeper.ExportGenesis")}
	importRoots := []*ssa.Function{c.F("x/xibc.InitGenesis"), c.F("x/aggregate.InitGenesis"), c.F("x/rvesting/keeper.Keeper.InitGenesis")}
	expReach := c.Reachable(exportRoots, "cha", nil)
	impReach := c.Reachable(importRoots, "cha", nil)

	c.Rule("C13/family-exported", "every key family that has a live writer is read by its registered exporter, which is reachable from ExportGenesis and iterates a prefix of that family (invoked with the family's literal prefix where the prefix is a parameter)", 14)
	c.Rule("C13/family-imported", "every exported family is written back by its registered importer, reachable from InitGenesis", 14)
	names, fams := familiesRoundTrip(c, "C13/family-exported", "C13/family-imported", expReach, impReach, nil)
	c.Extra["key_families"] = names

	c.Rule("C13/reader-tokenisation", "a reader that tokenises iterator keys with an unbounded strings.Split on \"/\" must not range over a family with a binary (big-endian height) component: a 0x2f byte inside the height changes the element count / positions", 2)
	tokenisationRule(c, "C13/reader-tokenisation", fams)

	c.Rule("C13/derived-indexes-rebuilt-completely", "the aggregate index families are not exported but re-derived on import: InitGenesis must index every imported pair by its contract address and by ALL of its denominations under the pair's id (shared with C12/three-way-write)", 2)
	threeWayRule(c, "C13/derived-indexes-rebuilt-completely", "x/aggregate.InitGenesis", func(p string) []string {
		return []string{"go-ethereum/common.HexToAddress(" + p + ".ERC20Address)", "aggregate/types.(TokenPair).GetERC20Contract(" + p + ")"}
	})

	c.Rule("C13/packet-genesis-binding", "each field of the packet GenesisState is exported from and imported into its own key family, with (src,dst,seq[,data]) in order", 8)
	packetGenesisBinding(c, "C13/packet-genesis-binding")

	c.Rule("C13/export-passes-own-validation", "the reward-vesting genesis validator validates the parameters of the exported state with the same value-typed validator that parameter changes use (Params.validate → validatePerBlockReward(m.PerBlockReward)), so a state reachable through accepted parameter changes still validates after export", 3)
	c.Spec("C13/export-passes-own-validation", Macros{}, FnSpec{Fn: "x/rvesting/types.Params.validate",
		Returns: []Ret{{Label: "validates-the-reward-value", Index: 0, Want: []string{"nil", "rvesting/types.validatePerBlockReward($0.PerBlockReward)"}}},
		Effects: []Eff{{Label: "value-typed-argument", Callee: "rvesting/types.validatePerBlockReward", N: 1, Args: map[int]string{0: "$0.PerBlockReward"}}},
	})
	c.Spec("C13/export-passes-own-validation", Macros{}, FnSpec{Fn: "x/rvesting/types.ValidateGenesis",
		Guards: []G{{"params", "reject (rvesting/types.(*Params).validate($0.Params) != nil)"}}})

	c.Rule("C13/fresh-decode-target", "a value decoded inside an iterator loop is decoded into a target allocated in that loop iteration (protobuf Unmarshal appends to repeated fields of a reused target, so a hoisted target accumulates the entries of earlier iterations into later ones)", 2)
	freshDecodeRule(c, "C13/fresh-decode-target")
	c.Rule("C13/export-loops-complete", "the collecting functions reachable from ExportGenesis (GetAll*, Export*) never return successfully from inside their collecting loop: every entry is exported, not only those before the first one that takes an early exit", 8)
	var expFns []*ssa.Function
	for f := range expReach {
		if inScope(f) {
			expFns = append(expFns, f)
		}
	}
	sort.Slice(expFns, func(i, j int) bool { return funcName(expFns[i]) < funcName(expFns[j]) })
	exportLoopsComplete(c, "C13/export-loops-complete", expFns)
	c.Rule("C13/export-collectors-never-stop", "a collecting callback handed to an iteration helper by a function reachable from ExportGenesis never returns the value with which the helper ends its iteration", 3)
	collectorsNeverStop(c, "C13/export-collectors-never-stop", expFns)
	c.Rule("C13/no-kept-address-of-a-loop-variable", "in the genesis validators, exporters and importers (all module packages) no address of a variable that is re-assigned by each iteration of a loop is kept beyond the iteration: a table built that way describes the last entry only", 10)
	noRetainedLoopVarAddress(c, "C13/no-kept-address-of-a-loop-variable", fnsInPackages(c, "/x/", "/adapter/", "/app"))
	c.Rule("C13/stored-state-passes-the-module's-own-validation", "state writers keep what the genesis validators demand (shared with C18 and C12): a TSS client gets no consensus state (validation rejects height zero); an ERC-20 address update removes the old record and indexes before the id changes (validation rejects two pairs with the same denominations)", 4)
	consStateSkippedOnlyForTSS(c, "C13/stored-state-passes-the-module's-own-validation")
	updateDeletesBeforeAddressChange(c, "C13/stored-state-passes-the-module's-own-validation")
	c.Rule("C13/rvesting-parameters-exported-as-stored", "the reward-vesting module exports exactly the parameters it reads from its store (no canonicalising constructor in between: sdk.NewCoins would drop zero amounts and re-sort)", 2)
	c.Spec("C13/rvesting-parameters-exported-as-stored", Macros{}, FnSpec{Fn: "x/rvesting/keeper.Keeper.ExportGenesis",
		Returns: []Ret{{Label: "genesis of the stored params", Index: 0, Want: []string{"rvesting/types.NewGenesisState(rvesting/keeper.(Keeper).GetParams($0, $1))"}}}})
	c.Spec("C13/rvesting-parameters-exported-as-stored", Macros{}, FnSpec{Fn: "x/rvesting/types.NewGenesisState",
		Returns: []Ret{{Label: "params verbatim", Index: 0, Want: []string{"rvesting/types.GenesisState{Params: $0, From: \"\", InitReward: cosmos-sdk/types.NewCoins(nil)}"}}}})
	c.Rule("C13/validation-holds-for-updated-clients", "GenesisState.Validate runs ClientState.Validate on every exported client; a condition it places on a field that header updates overwrite must be one the update path enforces on the new value (audited pairs below) — otherwise a client that was legitimately updated no longer passes the module's own genesis validation", 3)
	validationVsUpdates(c, "C13/validation-holds-for-updated-clients")

	c.Rule("C13/genesis-fields", "every field of each module GenesisState is populated by ExportGenesis and consumed by InitGenesis (rvesting From/InitReward are init-only funding instructions, audited)", 12)
	genesisFields(c, "C13/genesis-fields", "x/xibc/types.GenesisState", "x/xibc.ExportGenesis", "x/xibc.InitGenesis", nil)
	genesisFields(c, "C13/genesis-fields", "x/xibc/core/client/types.GenesisState", "x/xibc/core/client.ExportGenesis", "x/xibc/core/client.InitGenesis", nil)
	genesisFields(c, "C13/genesis-fields", "x/xibc/core/packet/types.GenesisState", "x/xibc/core/packet.ExportGenesis", "x/xibc/core/packet.InitGenesis", nil)
	genesisFields(c, "C13/genesis-fields", "x/aggregate/types.GenesisState", "x/aggregate.ExportGenesis", "x/aggregate.InitGenesis", nil)
	genesisFields(c, "C13/genesis-fields", "x/rvesting/types.GenesisState", "x/rvesting/types.NewGenesisState", "x/rvesting/keeper.Keeper.InitGenesis",
		map[string]string{"From": "init-only: account that funds the pool at chain start", "InitReward": "init-only: amount moved into the pool at chain start; the pool balance itself is bank state"})

	c.Rule("C13/client-type-siblings", "within each client package ClientState/ConsensusState/Header.ClientType() return the same constant, and the four packages use four distinct constants (GenesisState.Validate rejects a consensus state whose ClientType differs from its client's)", 12)
	seen := map[string]string{}
	for _, pk := range []string{tmT, bscT, ethT, tssT} {
		var ref string
		for _, t := range []string{"ClientState", "ConsensusState", "Header"} {
			fn := c.F(pk + t + ".ClientType")
			rets := c.P.RetExprs(fn, 0)
			got := "?"
			if len(rets) == 1 {
				got = rets[0].String()
			}
			if ref == "" {
				ref = got
			}
			c.Req(got == ref && rets[0].Op == "const", "C13/client-type-siblings", funcName(fn), fn.Pos(), got, fmt.Sprintf("%s returns %s but %sClientState.ClientType returns %s: an exported genesis containing this client fails its own validation", funcName(fn), got, short(strings.TrimSuffix(pk, ".")), ref))
		}
		if other, dup := seen[ref]; dup {
			c.Bad("C13/client-type-siblings", "distinct "+pk, c.F(pk+"ClientState.ClientType").Pos(), "client type constant "+ref+" is shared with "+other)
		}
		seen[ref] = pk
	}

	c.Rule("C13/export-sorted", "exported clients and consensus states are sorted (deterministic, order-independent export)", 2)
	for _, spec := range []string{clKeeper + "Keeper.GetAllGenesisClients", clKeeper + "Keeper.GetAllConsensusStates"} {
		fn := c.F(spec)
		ok := true
		for _, r := range c.P.RetExprs(fn, 0) {
			if !r.IsCall(").Sort") {
				ok = false
			}
		}
		c.Req(ok, "C13/export-sorted", funcName(fn), fn.Pos(), "returns .Sort()", "result is not sorted before export")
	}
}

// calls: does fn directly call callee?
func calls(p *Program, fn, callee *ssa.Function) bool {
	for _, cs := range p.CallsIn(fn) {
		if p.resolveCallee(cs.Ins.Common()) == callee {
			return true
		}
	}
	return false
}

func tokenisationRule(c *Check, rule string, fams map[string][]*StoreWrite) {
	for fn := range c.P.AllFuncs {
		if !inScope(fn) || len(fn.Blocks) == 0 {
			continue
		}
		x := c.P.Ex(fn)
		// a segment of an iterator key is shortened by position or by an exact prefix, never by a character set:
		// strings.Trim / TrimLeft / TrimRight take a cutset and also eat binary bytes that happen to be in it
		for _, cs := range c.P.CallsInOwn(fn) {
			switch cs.Name {
			case "strings.Trim", "strings.TrimLeft", "strings.TrimRight", "bytes.Trim", "bytes.TrimLeft", "bytes.TrimRight":
				a := c.P.ArgExprs(cs)
				if len(a) == 2 && a[0].Contains(func(e *Expr) bool { return e.IsCall("types.Iterator.Key") }) {
					c.Bad(rule, funcName(fn)+"/"+cs.Name+" on an iterator key", cs.Ins.Pos(), cs.Name+" removes every leading/trailing byte that occurs in its second argument (a cutset, not a prefix): binary components (heights) whose first bytes are among those characters are shortened and the entry is mis-parsed or skipped")
				}
			}
		}
		// an iterator key is matched against a computed prefix only if that prefix ends in the separator: "clients/eth"
		// is also a prefix of "clients/ethereum/…"
		for _, cs := range c.P.CallsInOwn(fn) {
			if cs.Name != "strings.HasPrefix" && cs.Name != "bytes.HasPrefix" {
				continue
			}
			a := c.P.ArgExprs(cs)
			if len(a) != 2 || a[1].Op == "const" || !a[0].Contains(func(e *Expr) bool { return e.IsCall("Iterator.Key") }) {
				continue
			}
			sh := c.P.ShapeExpr(a[1])
			verdict := prefixVerdict(x, cs.Ins.Common().Args[1], map[ssa.Value]bool{})
			if verdict == "" {
				continue // a form this rule cannot decide (neither a concatenation nor a cut of the key at a split part)
			}
			c.Req(verdict == "closed", rule, funcName(fn)+"/"+cs.Name+" of an iterator key with a computed prefix", cs.Ins.Pos(), "prefix "+trunc(sh)+" ends in the separator",
				"the iterator key is matched against the computed prefix "+trunc(sh)+", which ends in a variable component and not in the separator: a name that extends another one (eth / ethereum) matches the shorter one's prefix and its entries are mis-read or skipped")
		}
		for _, cs := range c.P.CallsIn(fn) { // (copies of an inlined parsing helper included: there the subject is the iterator key)
			if cs.Name != "strings.Split" && cs.Name != "strings.SplitN" && cs.Name != "bytes.Split" && cs.Name != "bytes.SplitN" {
				continue
			}
			call, ok := cs.Ins.(*ssa.Call)
			if !ok {
				continue
			}
			args := c.P.ArgExprs(cs)
			if args[1].String() != `"/"` {
				continue
			}
			// is the subject an iterator key?
			subj := args[0]
			var iterPrefix string
			segOffset := 0 // separators contributed by the store's own prefix: a prefix store strips them from Key()
			found := false
			subj.Walk(func(e *Expr) {
				if e.IsCall("types.Iterator.Key") && len(e.Args) == 1 && !found {
					it := e.Args[0]
					if it.IsCall("types.KVStorePrefixIterator") || it.IsCall("types.KVStoreReversePrefixIterator") {
						if cv, ok := it.Val.(*ssa.Call); ok {
							sp := normShape(c.P.storePrefix(x.E(cv.Call.Args[0]), nil, 0))
							segOffset = strings.Count(sp, "/")
							iterPrefix = sp + normShape(c.P.ShapeExpr(x.E(cv.Call.Args[1])))
							found = true
						}
					}
				}
			})
			if !found {
				continue
			}
			// families under that prefix with a binary component
			var binFams []string
			for f := range fams {
				if strings.HasPrefix(f, iterPrefix) && (strings.Contains(f, "⟨be8⟩") || strings.Contains(f, "⟨slice⟩")) {
					binFams = append(binFams, f)
				}
			}
			sort.Strings(binFams)
			construct := fmt.Sprintf("%s: %s over prefix %q", funcName(fn), cs.Name, iterPrefix)
			if len(binFams) == 0 {
				c.Ok(rule, construct, call.Pos(), "no binary component in the families under this prefix")
				continue
			}
			// minimal segment index at which a binary component starts
			minSeg := 1 << 30
			for _, f := range binFams {
				i := strings.Index(f, "⟨be8⟩")
				if j := strings.Index(f, "⟨slice⟩"); j >= 0 && (i < 0 || j < i) {
					i = j
				}
				seg := strings.Count(f[:i], "/") - segOffset
				if seg < minSeg {
					minSeg = seg
				}
			}
			limit := -1 // SplitN bound
			if strings.HasSuffix(cs.Name, ".SplitN") {
				if k, ok := call.Call.Args[2].(*ssa.Const); ok {
					limit = int(k.Int64())
				}
			}
			bad := ""
			if strings.HasSuffix(cs.Name, ".Split") || limit <= 0 || limit-1 > minSeg {
				// element count and all positions >= minSeg are unstable: any use of len() or such an index is unsound
				for _, r := range *call.Referrers() {
					switch u := r.(type) {
					case *ssa.Call:
						if b, ok := u.Call.Value.(*ssa.Builtin); ok && b.Name() == "len" {
							bad = "len(split) is compared although the binary height may contain '/'"
						}
					case *ssa.IndexAddr:
						if k, ok := u.Index.(*ssa.Const); ok {
							if int(k.Int64()) >= minSeg {
								bad = fmt.Sprintf("element [%d] lies at/after the binary component (segment %d)", k.Int64(), minSeg)
							}
						} else {
							bad = "element selected by a computed index (depends on the element count)"
						}
					}
				}
			}
			c.Req(bad == "", rule, construct, call.Pos(), "bounded split / binary part confined to the last element", fmt.Sprintf("%s; families with binary components under this prefix: %v — entries whose height bytes contain 0x2f are skipped or mis-parsed", bad, binFams))
		}
	}
}

func genesisFields(c *Check, rule, typeSpec, exportFn, initFn string, initOnly map[string]string) {
	i := strings.LastIndex(typeSpec, ".")
	tn := c.P.Pkg(typeSpec[:i]).Type(typeSpec[i+1:])
	if tn == nil {
		checkerFail("anchor unresolved: type %s", typeSpec)
	}
	st := tn.Type().Underlying().(*types.Struct)
	exp := c.F(exportFn)
	ini := c.F(initFn)
	// exported: fields stored into a literal of this type inside the export function
	stored := map[string]bool{}
	for _, b := range exp.Blocks {
		for _, ins := range b.Instrs {
			if fa, ok := ins.(*ssa.FieldAddr); ok && types.Identical(derefT(fa.X.Type()), tn.Type()) {
				for _, r := range *fa.Referrers() {
					if s, ok := r.(*ssa.Store); ok && s.Addr == fa {
						stored[st.Field(fa.Field).Name()] = true
					}
				}
			}
		}
	}
	read := map[string]bool{}
	for _, b := range ini.Blocks {
		for _, ins := range b.Instrs {
			switch v := ins.(type) {
			case *ssa.FieldAddr:
				if types.Identical(derefT(v.X.Type()), tn.Type()) {
					read[st.Field(v.Field).Name()] = true
				}
			case *ssa.Field:
				if types.Identical(derefT(v.X.Type()), tn.Type()) {
					read[st.Field(v.Field).Name()] = true
				}
			case *ssa.Call:
				// getters on the genesis type: GetParams() etc.
				if f := c.P.resolveCallee(&v.Call); f != nil && f.Signature.Recv() != nil && types.Identical(derefT(f.Signature.Recv().Type()), tn.Type()) && strings.HasPrefix(f.Name(), "Get") {
					read[strings.TrimPrefix(f.Name(), "Get")] = true
				}
			}
		}
	}
	for k := 0; k < st.NumFields(); k++ {
		name := st.Field(k).Name()
		construct := short(typeSpec[:i]) + "." + typeSpec[i+1:] + "." + name
		if reason, ok := initOnly[name]; ok {
			c.Req(read[name], rule, construct+" (init-only)", ini.Pos(), reason, "init-only field "+name+" is not consumed by InitGenesis")
			continue
		}
		c.Req(stored[name], rule, construct+" exported", exp.Pos(), "set by "+funcName(exp), fmt.Sprintf("field %s is not populated by %s: that part of the state is lost on export", name, funcName(exp)))
		c.Req(read[name], rule, construct+" imported", ini.Pos(), "read by "+funcName(ini), fmt.Sprintf("field %s is not consumed by %s: that part of the state is lost on import", name, funcName(ini)))
	}
}

func derefT(t types.Type) types.Type {
	if p, ok := t.Underlying().(*types.Pointer); ok {
		return p.Elem()
	}
	return t
}

// freshDecodeRule: see C13/fresh-decode-target.
func freshDecodeRule(c *Check, rule string) {
	for fn := range c.P.AllFuncs {
		if !inScope(fn) || len(fn.Blocks) == 0 {
			continue
		}
		fa := c.P.FA(fn)
		for _, cs := range c.P.CallsInOwn(fn) {
			if !strings.Contains(cs.Name, "Unmarshal") || strings.Contains(cs.Name, "UnmarshalInterface") {
				continue
			}
			b := cs.Ins.Block()
			if !fa.inCycle(b) {
				continue
			}
			cc := cs.Ins.Common()
			if len(cc.Args) == 0 {
				continue
			}
			target := stripConv(cc.Args[len(cc.Args)-1])
			al, ok := target.(*ssa.Alloc)
			if !ok {
				continue
			}
			// is the allocation inside the same cycle?
			inLoop := fa.reachFrom(b)[al.Block().Index] && fa.reachFrom(al.Block())[b.Index]
			c.Req(inLoop, rule, funcName(fn)+": "+cs.Name[strings.LastIndex(cs.Name, ".")+1:]+" target", cs.Ins.Pos(), "allocated per iteration", "decode target is allocated outside the loop and reused across iterations: repeated fields accumulate, so later entries carry the data of earlier ones (exported state differs from stored state)")
		}
	}
}

// validationVsUpdates: see C13/validation-holds-for-updated-clients.
func validationVsUpdates(c *Check, rule string) {
	lc := "x/xibc/clients/light-clients/"
	type allowed struct{ guard, needFn, needGuard, why string }
	audited := map[string][]allowed{
		"bsc":        {{"reject (bsc/types.(Header).ValidateBasic($0.Header) != nil)", lc + "bsc/types.checkValidity", "reject (bsc/types.(Header).ValidateBasic($4) != nil)", "every header that becomes the head passed ValidateBasic in checkValidity"}},
		"eth":        {{"reject (eth/types.(Header).ValidateBasic($0.Header) != nil)", lc + "eth/types.checkValidity", "reject (eth/types.(Header).ValidateBasic($5) != nil)", "every header that becomes the head passed ValidateBasic in checkValidity"}},
		"tendermint": {{"reject ($0.LatestHeight.RevisionHeight == 0)", "", "", "the latest height is only ever raised (C07 store: latest-height-only-raised)"}},
	}
	fieldRe := regexp.MustCompile(`\$0\.([A-Za-z_][A-Za-z0-9_]*)`)
	for _, t := range []string{"bsc", "eth", "tendermint"} {
		// fields of the client state that the header-update path overwrites
		updated := map[string]bool{}
		for _, fname := range []string{"update", "ClientState.CheckHeaderAndUpdateState"} {
			fn := c.P.FuncOpt(lc + t + "/types." + fname)
			if fn == nil {
				continue
			}
			c.Touch(fn)
			for _, b := range fn.Blocks {
				for _, ins := range b.Instrs {
					st, ok := ins.(*ssa.Store)
					if !ok {
						continue
					}
					for a := st.Addr; ; {
						fa, isF := a.(*ssa.FieldAddr)
						if !isF {
							break
						}
						if s := derefStruct(fa.X.Type()); s != nil {
							if nt, ok := deref(fa.X.Type()).(*types.Named); ok && nt.Obj().Name() == "ClientState" {
								updated[s.Field(fa.Field).Name()] = true
							}
						}
						a = fa.X
					}
				}
			}
		}
		val := c.F(lc + t + "/types.ClientState.Validate")
		n := 0
		for _, g := range c.P.FA(val).OwnGuards() {
			gs := g.String()
			touches := ""
			for _, m := range fieldRe.FindAllStringSubmatch(gs, -1) {
				if updated[m[1]] {
					touches = m[1]
				}
			}
			if touches == "" {
				continue // a field fixed at create / upgrade time, validated by the proposal's ValidateBasic
			}
			n++
			var hit *allowed
			for i := range audited[t] {
				if audited[t][i].guard == gs {
					hit = &audited[t][i]
				}
			}
			construct := t + " ClientState.Validate: " + trunc(gs)
			if hit == nil {
				c.Bad(rule, construct, g.If.Pos(), "Validate() constrains field "+touches+", which header updates overwrite, and the pair is not audited: an updated client may fail the module's own genesis validation after export")
				continue
			}
			ok := hit.needFn == "" || hasGuardQuiet(c, hit.needFn, hit.needGuard)
			c.Req(ok, rule, construct, g.If.Pos(), "audited: "+hit.why, "audited condition no longer enforced on the update path: "+hit.needGuard+" missing in "+hit.needFn)
		}
		c.Req(len(updated) > 0, rule, t+": update path overwrites client-state fields", val.Pos(), fmt.Sprint(len(updated), " field(s), ", n, " constrained by Validate"), "no field store found in the update path of "+t+" (anchor drifted)")
	}
}

func deref(t types.Type) types.Type {
	if p, ok := t.Underlying().(*types.Pointer); ok {
		return p.Elem()
	}
	return t
}

// shapeAlternatives splits a top-level ⟨alt:a‖b⟩ shape into its alternatives (a shape without alternatives is its own).
func shapeAlternatives(sh string) []string {
	if strings.HasPrefix(sh, "⟨alt:") && strings.HasSuffix(sh, "⟩") {
		return strings.Split(strings.TrimSuffix(strings.TrimPrefix(sh, "⟨alt:"), "⟩"), "‖")
	}
	return []string{sh}
}

// prefixEndsInSeparator decides, for the forms it understands, whether a computed prefix of a '/'-separated key ends in
// the separator ("closed") or in a variable component ("open"); "" when undecided. Understood: concatenations (by
// their shape) and a cut of the key itself at len(key)-len(<last part of SplitN(key,"/",n)>) (closed) or one byte
// before it (open). Merges are open if any alternative is.
func prefixEndsInSeparator(p *Program, e *Expr, key *Expr) string {
	switch e.Op {
	case "phi", "cell":
		res := ""
		for _, a := range e.Args {
			if a.Op == "const" {
				continue
			}
			switch prefixEndsInSeparator(p, a, key) {
			case "open":
				return "open"
			case "closed":
				if res == "" {
					res = "closed"
				}
			case "":
				res = "?"
			}
		}
		if res == "?" {
			return ""
		}
		return res
	case "slice":
		k := e.Args[0].String()
		re := regexp.MustCompile(`^:\(?\(len\(` + regexp.QuoteMeta(k) + `\) - len\(strings\.SplitN\(` + regexp.QuoteMeta(k) + `, "/", (\d+)\)\[(\d+)\]\)\)( - 1\))?$`)
		m := re.FindStringSubmatch(e.Name)
		if m == nil {
			return ""
		}
		n, _ := strconv.Atoi(m[1])
		i, _ := strconv.Atoi(m[2])
		if i != n-1 {
			return ""
		}
		if m[3] != "" {
			return "open"
		}
		return "closed"
	}
	if e.Op == "bin" && e.Name == "+" {
		// a concatenation ends as its last operand does
		var parts []*Expr
		var flat func(x *Expr)
		flat = func(x *Expr) {
			if x.Op == "bin" && x.Name == "+" {
				flat(x.Args[0])
				flat(x.Args[1])
				return
			}
			parts = append(parts, x)
		}
		flat(e)
		sep := false
		for _, q := range parts {
			if q.Op == "const" && strings.Contains(q.Name, "/") {
				sep = true
			}
		}
		last := parts[len(parts)-1]
		switch {
		case !sep:
			return ""
		case last.Op == "const":
			if strings.HasSuffix(strings.Trim(last.Name, "\""), "/") {
				return "closed"
			}
			return ""
		default:
			return "open"
		}
	}
	sh := p.ShapeExpr(e)
	if strings.HasPrefix(sh, "⟨alt:") || !strings.Contains(sh, "/") {
		return ""
	}
	if strings.HasSuffix(sh, "/") {
		return "closed"
	}
	if strings.HasSuffix(sh, "⟩") {
		return "open"
	}
	return ""
}

// prefixVerdict follows the value of a computed prefix through merges, variables and concatenations (see
// prefixEndsInSeparator for the verdicts).
func prefixVerdict(x *Exprer, v ssa.Value, seen map[ssa.Value]bool) string {
	if seen[v] {
		return "closed" // neutral element of the merge below
	}
	seen[v] = true
	merge := func(vals []ssa.Value) string {
		res := "closed"
		any := false
		for _, e := range vals {
			if k, ok := e.(*ssa.Const); ok && k.Value != nil && k.Value.Kind() == constant.String && constant.StringVal(k.Value) == "" {
				continue
			}
			any = true
			switch prefixVerdict(x, e, seen) {
			case "open":
				return "open"
			case "":
				res = ""
			}
		}
		if !any {
			return ""
		}
		return res
	}
	switch t := v.(type) {
	case *ssa.Phi:
		return merge(t.Edges)
	case *ssa.UnOp:
		if a, ok := t.X.(*ssa.Alloc); ok && t.Op == token.MUL && a.Referrers() != nil {
			var vals []ssa.Value
			for _, r := range *a.Referrers() {
				if st, ok := r.(*ssa.Store); ok && st.Addr == ssa.Value(a) {
					vals = append(vals, st.Val)
				}
			}
			return merge(vals)
		}
	case *ssa.BinOp:
		if t.Op != token.ADD {
			return ""
		}
		var parts []ssa.Value
		var flat func(q ssa.Value)
		flat = func(q ssa.Value) {
			if b, ok := q.(*ssa.BinOp); ok && b.Op == token.ADD {
				flat(b.X)
				flat(b.Y)
				return
			}
			parts = append(parts, q)
		}
		flat(t)
		sep := false
		for _, q := range parts {
			if k, ok := q.(*ssa.Const); ok && k.Value != nil && k.Value.Kind() == constant.String && strings.Contains(constant.StringVal(k.Value), "/") {
				sep = true
			}
		}
		if !sep {
			return ""
		}
		if k, ok := parts[len(parts)-1].(*ssa.Const); ok {
			if k.Value != nil && k.Value.Kind() == constant.String && strings.HasSuffix(constant.StringVal(k.Value), "/") {
				return "closed"
			}
			return ""
		}
		return "open"
	case *ssa.Slice:
		return prefixEndsInSeparator(x.P, x.E(t), nil)
	}
	return ""
}

// familiesRoundTrip: every written key family (those selected by keep; nil = all) is read by its registered exporter,
// reachable from ExportGenesis over a prefix of the family, and written back by its importer, reachable from InitGenesis.
func familiesRoundTrip(c *Check, ruleExp, ruleImp string, expReach, impReach map[*ssa.Function]*ssa.Function, keep func(string) bool) ([]string, map[string][]*StoreWrite) {
	fams := map[string][]*StoreWrite{}
	for _, w := range c.P.StoreWrites() {
		if w.Op != "Set" {
			continue
		}
		if len(c.StaticCallers(w.Fn)) == 0 && !strings.Contains(funcName(w.Fn), "RestrictChain") {
			continue // dead writer (no in-scope caller): e.g. SetPacketRelayer
		}
		f := normShape(w.Full(c.P))
		if f == "clients/⟨s⟩/⟨s⟩" && strings.HasSuffix(funcName(w.Fn), "SetAllClientMetadata") {
			continue // the generic metadata importer itself
		}
		fams[f] = append(fams[f], w)
	}
	var names []string
	for f := range fams {
		names = append(names, f)
	}
	sort.Strings(names)
	for _, f := range names {
		if keep != nil && !keep(f) {
			continue
		}
		w := fams[f][0]
		row, ok := families[f]
		if !ok {
			c.Bad(ruleExp, "family "+f, w.Pos, fmt.Sprintf("key family %s is written by %s but has no registered exporter: state under it would be lost by an export/import round trip", f, funcName(w.Fn)))
			continue
		}
		if row.derived {
			imp := c.F(row.importer)
			_, r := impReach[imp]
			c.Req(r, ruleImp, "family "+f+" re-derived by "+funcName(imp), imp.Pos(), "index family re-derived on import", funcName(imp)+" is not reachable from InitGenesis, so the index family "+f+" is not rebuilt on import")
			continue
		}
		if row.exporter == "" {
			c.Bad(ruleExp, "family "+f, w.Pos, fmt.Sprintf("key family %s (writer %s) is not exported by any reader reachable from ExportGenesis", f, funcName(w.Fn)))
		} else {
			exp := c.F(row.exporter)
			_, r := expReach[exp]
			okRead := false
			param := false
			for _, rd := range c.P.StoreReads() {
				if rd.Fn != exp && !(rd.Fn.Parent() == nil && calls(c.P, exp, rd.Fn)) {
					continue
				}
				n := normShape(rd.Full)
				if strings.HasSuffix(n, "⟨s⟩") && strings.HasPrefix(f, strings.TrimSuffix(n, "⟨s⟩")) && row.via != "" {
					param = true
					okRead = true
				} else if strings.HasPrefix(f, n) {
					okRead = true
				}
			}
			okVia := true
			if param {
				okVia = false
				for caller := range expReach {
					for _, cs := range c.P.CallsIn(caller) {
						if c.P.resolveCallee(cs.Ins.Common()) != exp {
							continue
						}
						for _, a := range c.P.ArgExprs(cs) {
							if c.P.ShapeExpr(a) == row.via {
								okVia = true
							}
						}
					}
				}
			}
			c.Req(r && okRead && okVia, ruleExp, "family "+f, exp.Pos(), "exported by "+funcName(exp),
				fmt.Sprintf("family %s: exporter %s reachable-from-ExportGenesis=%v, reads-a-prefix-of-the-family=%v, invoked-with-prefix-%q=%v", f, funcName(exp), r, okRead, row.via, okVia))
		}
		imp := c.F(row.importer)
		_, r := impReach[imp]
		c.Req(r, ruleImp, "family "+f, imp.Pos(), "imported by "+funcName(imp), fmt.Sprintf("importer %s of family %s is not reachable from InitGenesis", funcName(imp), f))
	}
	return names, fams
}

// genesisReach: the functions reachable from the modules' ExportGenesis / InitGenesis.
func genesisReach(c *Check) (exp, imp map[*ssa.Function]*ssa.Function) {
	exportRoots := []*ssa.Function{c.F("x/xibc.ExportGenesis"), c.F("x/aggregate.ExportGenesis"), c.F("x/rvesting/keeper.Keeper.ExportGenesis")}
	importRoots := []*ssa.Function{c.F("x/xibc.InitGenesis"), c.F("x/aggregate.InitGenesis"), c.F("x/rvesting/keeper.Keeper.InitGenesis")}
	return c.Reachable(exportRoots, "cha", nil), c.Reachable(importRoots, "cha", nil)
}
