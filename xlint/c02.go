package main

import (
	"strings"

	"golang.org/x/tools/go/ssa"
)

func init() {
	register("C02", c02)
	register("C04", c04)
	register("C05", c05)
}

func c02(c *Check) {
	c.Declined = []string{
		"soundness of ICS-23, Merkle-Patricia and tendermint light verification (third-party, trusted)",
		"that the consensus state at the proof height was itself authentic (C07 / C09 / C10)",
		"state unchanged on reject (BaseApp reverts a failed message; trusted)",
	}
	c.Trusted = []string{"ics23.VerifyMembership", "go-ethereum trie.VerifyProof", "BaseApp message atomicity", "go/ssa"}
	c.Assume = []string{"guards and bindings were selected by source position at freeze time (xlint/picks/C02.txt, C07.txt, C08.txt) and are compared in canonical form"}
	c.Rule("C02/keeper-verification", "frozen table: RecvPacket verifies with the client and client store of the decoded packet's SOURCE chain, at msg.ProofHeight, the recomputed CommitPacket(packet) under the packet's own (src,dst,seq); AcknowledgePacket first requires the stored commitment of that triple to equal the recomputed one, then verifies with the DESTINATION chain's client the hash of msg.Acknowledgement; receipt / commitment / deletion / relay writes and every success return are dominated by successful verification", 30)
	c.Rule("C02/membership", "frozen table: MerkleProof.VerifyMembership and the chained proof keep every rejecting check (args, path length = spec count, non-empty value, existence proofs only, ICS-23 membership per level, final sub-root equals the consensus root)", 10)
	c.Rule("C02/tss", "frozen table: the TSS client accepts a proof only if it equals the configured TSS address (the keeper passes msg.Signer as proof for TSS clients only)", 3)
	n := c.Frozen("C02")
	c.Rule("C02/per-client-verifiers", "frozen tables of C07/C08 restricted to the proof path: each of the tendermint / ETH / BSC VerifyPacketCommitment|Acknowledgement ends in its membership check on the commitment (resp. ack) path or slot of its own parameters, at the consensus state of the `height` parameter", 60)
	keep := func(fn string) bool {
		return strings.Contains(fn, "VerifyPacket") || strings.Contains(fn, "produceVerificationArgs") || strings.Contains(fn, "verifyMerkleProof") || strings.Contains(fn, "verifyDelayPeriodPassed") || strings.Contains(fn, "ProofKey") || strings.Contains(fn, "checkProofResult")
	}
	n += c.FrozenFiltered("C07", "C02/per-client-verifiers", keep)
	n += c.FrozenFiltered("C08", "C02/per-client-verifiers", keep)
	c.Extra["frozen_entries"] = n

	c.Rule("C02/tss-proof-only-for-tss", "the proof argument handed to the client is msg.ProofCommitment / msg.ProofAcked, replaced by msg.Signer only on the ClientType()==\"tss-client\" branch", 2)
	tssProofRule(c, "C02/tss-proof-only-for-tss")

	c.Rule("C02/no-swallowed-panic", "no function of the light clients, the commitment verifier or the packet keeper defers a recover() that lets it return normally after a panic: a verification step that panics must not come back as a nil error", 1)
	noSwallowedPanic(c, "C02/no-swallowed-panic", fnsInPackages(c, "/x/xibc/clients/", "/x/xibc/core/commitment", "/x/xibc/core/packet/keeper", "/x/xibc/keeper"))
	c.Rule("C02/msg-server-gated-by-verification", "the msg server rejects when the packet keeper's RecvPacket / AcknowledgePacket returns an error (whatever the error), and every contract call, ack write and success return is dominated by the err==nil edge", 10)
	{
		m := msM
		recv := c.F(xibcK + "Keeper.RecvPacket")
		c.HasGuard(recv, "C02/msg-server-gated-by-verification", "recv-error-rejects", m, "reject ({KRECV} != nil)")
		c.SuccessUnder(recv, "C02/msg-server-gated-by-verification", m, "({KRECV} == nil)")
		ack := c.F(xibcK + "Keeper.Acknowledgement")
		c.HasGuard(ack, "C02/msg-server-gated-by-verification", "ack-error-rejects", m, "reject ({KACK} != nil)")
		c.SuccessUnder(ack, "C02/msg-server-gated-by-verification", m, "({KACK} == nil)")
		for i, cs := range c.Calls(ack, "keeper.(Keeper).CallPacket") {
			c.Under(ack, "C02/msg-server-gated-by-verification", "ack-CallPacket#"+itoa(i), m, cs.Ins, "({KACK} == nil)")
		}
		for i, cs := range c.Calls(recv, "keeper.(Keeper).CallPacket") {
			c.Under(recv, "C02/msg-server-gated-by-verification", "recv-CallPacket#"+itoa(i), m, cs.Ins, "({KRECV} == nil)")
		}
	}

	c.Rule("C02/strict-decode-in-msg-server", "the msg server rejects a packet / acknowledgement that does not ABI-decode (the packet keeper's lenient decode is backed by this strict one)", 3)
	m := msM
	c.Spec("C02/strict-decode-in-msg-server", m, FnSpec{Fn: xibcK + "Keeper.RecvPacket", Guards: []G{{"decode-packet", "reject (packet/types.(*Packet).ABIDecode({PKT}, $2.Packet) != nil)"}}})
	c.Spec("C02/strict-decode-in-msg-server", m, FnSpec{Fn: xibcK + "Keeper.Acknowledgement", Guards: []G{
		{"decode-packet", "reject (packet/types.(*Packet).ABIDecode({PKT}, $2.Packet) != nil)"},
		{"decode-ack", "reject (packet/types.(*Acknowledgement).ABIDecode({ACK}, $2.Acknowledgement) != nil)"}}})
}

func c04(c *Check) {
	c.Declined = []string{
		"the packet contract's own counter and token locking (byte code only)",
		"gap-freedom as a property of histories (follows from the per-send structure plus atomic revert, not proved)",
		"that a failing hook reverts the EVM transaction (ethermint runs hooks in a cache context; trusted)",
	}
	c.Trusted = []string{"ethermint PostTxProcessing cache context", "BaseApp atomicity", "go/ssa"}
	c.Assume = []string{"guards and bindings were selected by source position at freeze time (xlint/picks/C04.txt)"}
	c.Rule("C04/send-packet", "frozen table: SendPacket rejects unless sequence == stored next-send sequence for (src,dst); stores loaded+1 for the same (src,dst); passes that same value to the contract's setSequence for dst (error propagated); stores CommitPacket(packet) under (src,dst,packet sequence); emits the packed packet; every write and the success return are dominated by all checks", 18)
	c.Rule("C04/hook", "frozen table: PostTxProcessing only acts on logs of the packet contract address with the PacketSent event, and returns every error (lookup, unpack, JSON, decode, SendPacket) so that a failing send reverts the EVM transaction", 7)
	n := c.Frozen("C04")
	c.Extra["frozen_entries"] = n

	c.Rule("C04/failing-hook-fails-the-call", "CallEVMWithData: a post-transaction hook error (e.g. a failing SendPacket) marks the response failed and the failure test is evaluated after the hook, so a failing send fails the enclosing call (shared with C03)", 4)
	evmHookRule(c, "C04/failing-hook-fails-the-call")
	c.Rule("C04/receive-callback-on-cache-context", "the destination callback of a received packet (which may itself send a forwarded packet) runs on the cache context of the msg server: a send that fails inside it leaves no trace (shared with C03/cache-discipline)", 1)
	for _, cs := range c.Calls(c.F(xibcK+"Keeper.RecvPacket"), "keeper.(Keeper).CallPacket") {
		c.ArgIs(cs, "C04/receive-callback-on-cache-context", "onRecvPacket.ctx", msM, 1, "{CC}#0")
	}
	c.Rule("C04/hook-sees-every-log", "the packet hook reaches a successful end only after the loop over the receipt's logs: a PacketSent event behind another event of the same transaction is still committed", 1)
	allLogsProcessed(c, "C04/hook-sees-every-log", pkKeeper+"Hooks.PostTxProcessing")

	c.Rule("C04/committed-bytes-are-the-emitted-bytes", "the packet tuple and the Packet struct agree field by field in both directions, so the packet decoded from the contract's PacketSent bytes re-encodes to the same bytes and the stored commitment is the hash of the emitted packet (shared with C19)", 16)
	abiTupleRule(c, "C04/committed-bytes-are-the-emitted-bytes", "Packet")

	c.Rule("C04/counters-survive-genesis", "send sequences and commitments are exported from and re-imported into their own families under the same (src,dst[,seq]) order, so numbering continues after an export/import and the chain-side counter keeps agreeing with the contract's (shared with C13)", 4)
	packetGenesisBinding(c, "C04/counters-survive-genesis", "SendSequences", "Commitments")

	c.Rule("C04/reset-wipes-both-counters", "whoever wipes the chain-side packet state (xibc.ResetStates, used by the upgrade handler) first deletes the packet contract's account, whose storage holds the contract-side send counters: resetting one side alone leaves the two counters apart", 1)
	resetWipesBoth(c, "C04/reset-wipes-both-counters")
	c.Rule("C04/send-counters-exported-whole", "the export of the send counters collects every destination: its collecting callback never returns the value that ends IteratePacketSequence (a counter missing from the export restarts at 1 while the contract keeps its own)", 1)
	collectorsNeverStop(c, "C04/send-counters-exported-whole", []*ssa.Function{c.F(pkKeeper + "Keeper.GetAllPacketSendSeqs")})
	c.Rule("C04/once", "on every success path of SendPacket exactly one SetNextSequenceSend, one setSequence call and one SetPacketCommitment", 3)
	sp := c.F(pkKeeper + "Keeper.SendPacket")
	for _, callee := range []string{"keeper.(Keeper).SetNextSequenceSend", "keeper.(Keeper).CallPacket", "keeper.(Keeper).SetPacketCommitment"} {
		paths := c.PathCounts(sp, func(cs *CallSite) bool { return strings.HasSuffix(cs.Name, callee) })
		ok := len(paths) > 0
		for _, p := range paths {
			if p.Count != 1 {
				ok = false
			}
		}
		c.Req(ok, "C04/once", funcName(sp)+"/exactly-one "+callee, sp.Pos(), "", "some success path of SendPacket does not execute "+callee+" exactly once")
	}

	c.Rule("C04/who-writes-sequences", "SetNextSequenceSend ⊆ {SendPacket, InitGenesis}; SetPacketCommitment ⊆ {SendPacket, RecvPacket (relay), InitGenesis}; deletePacketCommitment ⊆ {AcknowledgePacket}; setSequence is invoked only from SendPacket; SendPacket only from the EVM hook", 8)
	c.WhoMayCall("C04/who-writes-sequences", c.F(pkKeeper+"Keeper.SetNextSequenceSend"), "packet/keeper.(Keeper).SendPacket", "core/packet.InitGenesis")
	c.WhoMayCall("C04/who-writes-sequences", c.F(pkKeeper+"Keeper.SetPacketCommitment"), "packet/keeper.(Keeper).SendPacket", "packet/keeper.(Keeper).RecvPacket", "core/packet.InitGenesis")
	c.WhoMayCall("C04/who-writes-sequences", c.F(pkKeeper+"Keeper.deletePacketCommitment"), "packet/keeper.(Keeper).AcknowledgePacket")
	c.WhoMayCall("C04/who-writes-sequences", c.F(pkKeeper+"Keeper.SendPacket"), "packet/keeper.(Hooks).PostTxProcessing")
	callPacketMethodOwners(c, "C04/who-writes-sequences", "setSequence", "packet/keeper.(Keeper).SendPacket")
	for _, w := range writesWithPrefix(c, "nextSequenceSend") {
		c.Req(w.Op == "Set" && strings.HasSuffix(funcName(w.Fn), "SetNextSequenceSend"), "C04/who-writes-sequences", "raw "+w.Op+" nextSequenceSend in "+funcName(w.Fn), w.Pos, "", "raw write to the send-sequence family in "+funcName(w.Fn))
	}
	for _, w := range writesWithPrefix(c, "commitments") {
		ok := (w.Op == "Set" && strings.HasSuffix(funcName(w.Fn), "SetPacketCommitment")) || (w.Op == "Delete" && strings.HasSuffix(funcName(w.Fn), "deletePacketCommitment"))
		c.Req(ok, "C04/who-writes-sequences", "raw "+w.Op+" commitments in "+funcName(w.Fn), w.Pos, "", "raw write to the commitments family in "+funcName(w.Fn))
	}
}

func c05(c *Check) {
	c.Declined = []string{
		"behaviour over histories with duplicated / reordered acknowledgement messages (only the per-message structure is decided)",
		"the packet contract's ackStatus semantics, fee payout and callback (byte code only)",
	}
	c.Trusted = []string{"BaseApp atomicity", "go/ssa"}
	c.Assume = []string{"guards and bindings were selected by source position at freeze time (xlint/picks/C05.txt, C02.txt)"}
	c.Rule("C05/ack-proof-binds-the-stored-value", "frozen table (shared with C08): the ETH and BSC storage-proof check accepts only when the value proven under the slot equals the expected acknowledgement hash — a commitment is removed only by a proven acknowledgement of that packet", 10)
	c.FrozenFiltered("C08", "C05/ack-proof-binds-the-stored-value", func(fn string) bool {
		return strings.HasSuffix(fn, "verifyMerkleProof") || strings.HasSuffix(fn, "checkProofResult")
	})
	c.Rule("C05/acks-survive-genesis", "stored acknowledgements are exported from and re-imported into their own family under the same (src,dst,seq): a restart between writing and relaying an acknowledgement neither removes it nor files it under another packet", 4)
	packetGenesisBinding(c, "C05/acks-survive-genesis", "Acknowledgements")
	c.Rule("C05/write-ack", "frozen table: WriteAcknowledgement rejects an empty ack and an already stored ack for the packet's own triple, and stores CommitAcknowledgement(ack parameter) under exactly that triple", 5)
	n := c.Frozen("C05")
	c.Rule("C05/acknowledge-packet", "frozen table (shared with C02): the commitment is deleted only after stored==recomputed commitment and successful verification; a second acknowledgement fails the commitment comparison because the commitment is gone", 10)
	n += c.FrozenFiltered("C02", "C05/acknowledge-packet", func(fn string) bool { return strings.HasSuffix(fn, "Keeper.AcknowledgePacket") })
	c.Extra["frozen_entries"] = n

	c.Rule("C05/no-ack-overwrite", "the acks family is written only by SetPacketAcknowledgement and never deleted; SetPacketAcknowledgement ⊆ {WriteAcknowledgement, AcknowledgePacket (relay branch), InitGenesis}", 4)
	for _, w := range writesWithPrefix(c, "acks") {
		c.Req(w.Op == "Set" && strings.HasSuffix(funcName(w.Fn), "SetPacketAcknowledgement"), "C05/no-ack-overwrite", "acks/"+w.Op+" in "+funcName(w.Fn), w.Pos, "sole writer", w.Op+" on the acks family in "+funcName(w.Fn))
	}
	c.WhoMayCall("C05/no-ack-overwrite", c.F(pkKeeper+"Keeper.SetPacketAcknowledgement"), "packet/keeper.(Keeper).WriteAcknowledgement", "packet/keeper.(Keeper).AcknowledgePacket", "core/packet.InitGenesis")
	auditOpaque(c, "C05/no-ack-overwrite")

	c.Rule("C05/one-ack-per-receive", "msg server RecvPacket: every success path for a packet addressed to this chain, and for an unknown destination, executes WriteAcknowledgement exactly once (relay paths: none); all WriteAcknowledgement errors propagate; the success ack carries the result unpacked from this callback's return data", 4)
	ms := c.F(xibcK + "Keeper.RecvPacket")
	m := msM
	local := m.X("({DST} == client/keeper.(Keeper).GetChainName($0.ClientKeeper, {CC}#0))")
	localOuter := m.X("({DST} == client/keeper.(Keeper).GetChainName($0.ClientKeeper, {CTX}))") // same read on the message context (nothing is written in between)
	unknown := m.X("!client/keeper.(Keeper).GetClientState($0.ClientKeeper, {CTX}, {DST})#1")
	paths := c.PathCounts(ms, func(cs *CallSite) bool { return strings.HasSuffix(cs.Name, "keeper.(Keeper).WriteAcknowledgement") })
	nLocal, nUnknown, nRelay := 0, 0, 0
	okAll := len(paths) > 0
	for _, p := range paths {
		want := 0
		switch {
		case p.Conds[local] || p.Conds[localOuter]:
			want = 1
			nLocal++
		case p.Conds[unknown]:
			want = 1
			nUnknown++
		default:
			nRelay++
		}
		if p.Count != want {
			okAll = false
			c.Bad("C05/one-ack-per-receive", funcName(ms)+"/path-to-return", p.Ret.Pos(), "a success path executes WriteAcknowledgement "+itoa(p.Count)+" time(s), expected "+itoa(want))
		}
	}
	c.Req(okAll && nLocal >= 2 && nUnknown >= 1 && nRelay >= 1, "C05/one-ack-per-receive", funcName(ms)+"/paths", ms.Pos(), "local="+itoa(nLocal)+" unknown-dst="+itoa(nUnknown)+" relay="+itoa(nRelay), "path classes not all present (local/unknown/relay): "+itoa(nLocal)+"/"+itoa(nUnknown)+"/"+itoa(nRelay))
	for i, cs := range c.Calls(ms, "keeper.(Keeper).WriteAcknowledgement") {
		c.ErrPropagated(cs, "C05/one-ack-per-receive", "WriteAcknowledgement#"+itoa(i))
	}

	c.Rule("C05/ack-write-persists", "every WriteAcknowledgement of the msg server writes to the outer context, or to the cache context only where write() dominates every success return reachable from it (an ack written to a dropped cache is lost)", 3)
	{
		fa := c.P.FA(ms)
		writes := c.Calls(ms, m.X("dyn:{CC}#1"))
		for i, cs := range c.Calls(ms, "keeper.(Keeper).WriteAcknowledgement") {
			ctxArg := c.P.ArgExprs(cs)[1].String()
			construct := funcName(ms) + "/WriteAcknowledgement#" + itoa(i) + " persists"
			if ctxArg == m.X("{CTX}") {
				c.Ok("C05/ack-write-persists", construct, cs.Ins.Pos(), "outer context")
				continue
			}
			ok := len(writes) == 1
			if ok {
				wb := writes[0].Ins.Block()
				reach := fa.reachFrom(cs.Ins.Block())
				for _, r := range fa.NonRejectReturns() {
					if reach[r.Block().Index] && !(wb == r.Block() || c.P.Dominates(wb, r.Block())) {
						ok = false
					}
				}
			}
			c.Req(ok, "C05/ack-write-persists", construct, cs.Ins.Pos(), "cache context flushed on every path", "acknowledgement is written on "+trunc(ctxArg)+" but a success return is reachable without write(): the ack is silently dropped while the receipt stays")
		}
	}

	c.Rule("C05/callback-failure-yields-error-ack", "a destination callback whose post-transaction hook fails makes CallPacket fail (CallEVMWithData re-tests res.Failed() after the hook), so the error-acknowledgement branch is taken instead of the success one (shared with C03/C04)", 4)
	evmHookRule(c, "C05/callback-failure-yields-error-ack")
	c.Rule("C05/acknowledgement-fields-bound-by-name", "the constructors of the packet types (NewAcknowledgement, NewResult, NewPacket, …) put each argument into the field of its own name: the result code of a failed execution is not stored as the fee option (and acknowledged as success)", 10)
	constructorBindings(c, "C05/acknowledgement-fields-bound-by-name", "/x/xibc/core/packet/types")
	c.Rule("C05/tss-ack-authenticated-by-signer", "a TSS-secured counterparty's acknowledgement is 'verified' only by the identity of the transaction signer: the keeper hands msg.Signer to the TSS client exactly when the client type is TSS and under no other condition (a relayer-supplied proof field would let anybody replay the public TSS address)", 2)
	tssProofRule(c, "C05/tss-ack-authenticated-by-signer")

	c.Rule("C05/ack-processed-once", "msg server Acknowledgement: outcome recorded, fee paid and callback run once each, only after a verified acknowledgement (shared structure with C03/ack-outcome)", 20)
	ackSpec(c, "C05/ack-processed-once")
}

func itoa(i int) string {
	return strings.TrimSpace(strings.Replace(strings.Repeat(" ", 0)+sprint(i), "\n", "", -1))
}

// tssProofRule: the proof handed to the light client is the message's proof field, replaced by the signer only for TSS clients.
func tssProofRule(c *Check, rule string) {
	for _, spec := range []struct{ fn, callee, proofField string }{
		{pkKeeper + "Keeper.RecvPacket", "exported.ClientState.VerifyPacketCommitment", "ProofCommitment"},
		{pkKeeper + "Keeper.AcknowledgePacket", "exported.ClientState.VerifyPacketAcknowledgement", "ProofAcked"},
	} {
		fn := c.F(spec.fn)
		for _, cs := range c.Calls(fn, spec.callee) {
			a := c.P.ArgExprs(cs)
			want := "phi{$2." + spec.proofField + " | $2.Signer}"
			ok := a[5].String() == want
			// the Signer alternative is selected by the TSS client-type test
			tssBranch := false
			for _, i := range c.P.FA(fn).ifs {
				if strings.Contains(c.P.Ex(fn).E(i.Cond).String(), `.ClientType(`) && strings.Contains(c.P.Ex(fn).E(i.Cond).String(), `"tss"`) {
					tssBranch = true
				}
			}
			// …and by nothing else: the edge carrying the signer is taken exactly when the client type is TSS
			onlyTSS := false
			if ph, isPhi := stripConv(cs.Ins.Common().Args[4]).(*ssa.Phi); isPhi && ph.Parent() == fn {
				conds := c.P.PhiEdgeConds(ph)
				common := map[string]bool{}
				for s := range conds[0] {
					common[s] = true
				}
				for _, cs2 := range conds[1:] {
					for s := range common {
						if !cs2[s] {
							delete(common, s)
						}
					}
				}
				onlyTSS = true
				x := c.P.Ex(fn)
				for i, e := range ph.Edges {
					var extra []string
					for s := range conds[i] {
						if !common[s] {
							extra = append(extra, s)
						}
					}
					isTSS := len(extra) == 1 && strings.Contains(extra[0], ".ClientType(") && strings.Contains(extra[0], `"tss"`)
					signer := x.E(e).String() == "$2.Signer"
					if !isTSS || signer != strings.Contains(extra[0], " == ") {
						onlyTSS = false
					}
				}
			}
			c.Req(ok && tssBranch && onlyTSS, rule, funcName(fn)+"/proof-argument", cs.Ins.Pos(), a[5].String(), "proof argument is "+a[5].String()+" (required "+want+", the signer being chosen exactly when the client type is TSS and by no other condition)")
		}
	}
}

// resetWipesBoth: every call of xibc.ResetStates is preceded, on every path, by EvmKeeper.DeleteAccount of the packet
// contract address (the constant syscontracts.PacketContractAddress).
func resetWipesBoth(c *Check, rule string) {
	reset := c.F("x/xibc.ResetStates")
	addr := ""
	if k, ok := c.P.Const("syscontracts.PacketContractAddress"); ok {
		addr = k
	}
	c.Req(addr != "", rule, "packet contract address constant", reset.Pos(), addr, "syscontracts.PacketContractAddress not found")
	n := 0
	for fn := range c.P.AllFuncs {
		if !inTeleport(fn) || len(fn.Blocks) == 0 || isGeneratedFn(c.P, fn) {
			continue
		}
		fa := c.P.FA(fn)
		for _, cs := range c.P.CallsInOwn(fn) {
			if c.P.resolveCallee(cs.Ins.Common()) != reset {
				continue
			}
			n++
			ok := false
			for _, d := range c.P.CallsIn(fn) {
				if !strings.HasSuffix(d.Name, "Keeper).DeleteAccount") {
					continue
				}
				args := c.P.ArgExprs(d)
				if len(args) < 3 || !strings.Contains(args[2].String(), addr) {
					continue
				}
				db, rb := d.Ins.Block(), cs.Ins.Block()
				if (db == rb && instrIndex(d.Ins) < instrIndex(cs.Ins)) || (db != rb && c.P.Dominates(db, rb)) {
					ok = true
				}
				// the deletion may sit in a loop over a literal list of addresses that includes the packet contract's:
				// the loop (its header dominates the reset) then runs before the reset
				for _, h := range fn.Blocks {
					if h != db && c.P.Dominates(h, db) && c.P.Dominates(h, rb) && fa.reachFrom(db)[h.Index] && !fa.reachFrom(rb)[h.Index] {
						ok = true
					}
				}
			}
			_ = fa
			c.Req(ok, rule, funcName(fn)+"/ResetStates after DeleteAccount(packet contract)", cs.Ins.Pos(), "the packet contract account is deleted first",
				"xibc.ResetStates wipes the chain-side sequence counters without a preceding DeleteAccount of the packet contract ("+addr+"): the contract keeps its old counters and the next send fails the sequence comparison")
		}
	}
	c.Req(n > 0, rule, "callers of ResetStates", reset.Pos(), sprint(n), "no caller of xibc.ResetStates found (anchor drifted)")
}
