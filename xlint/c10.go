package main

import "strings"

func init() { register("C10", c10) }

func c10(c *Check) {
	c.Declined = []string{
		"'forks never wedge it' and 'consensus states on the head's ancestry are that ancestor's root': properties of header-tree histories decided by RestrictChain's loops over stored data — no sound static argument in reach",
		"correctness of the vendored ethash algorithm and of the difficulty calculator",
	}
	c.Trusted = []string{"vendored ethash hashimoto / difficulty calculator as algorithms", "go/ssa"}
	c.Assume = []string{"guards and bindings were selected by source position at freeze time (xlint/picks/C10.txt) and are compared in canonical form"}
	c.Rule("C10/guards", "frozen table: parent looked up by (parent hash, height-1) and required; parent hash equality; timestamp not beyond block time + allowance and strictly after the parent; EIP-1559 gas-limit and base-fee rules; difficulty equals the calculated one unless chain id is Rinkeby; extra-data size and proof-of-work (light mode, fulldag=false) unless Rinkeby; seal: positive difficulty, mix digest, result below target; header indexed and root recorded; consensus state = header time/height/root; head := header", 40)
	n := c.Frozen("C10")
	c.Extra["frozen_entries"] = n
	c.Rule("C10/trusted-header-indexed", "frozen table (shared with C18): the header a client is created or upgraded with is indexed like an accepted one (header index by hash, root index by height with root and hash in that order), so its children and its pruning find it", 4)
	c.FrozenFiltered("C18", "C10/trusted-header-indexed", func(fn string) bool {
		return strings.Contains(fn, "light-clients/eth/types") && (strings.HasSuffix(fn, "ClientState.Initialize") || strings.HasSuffix(fn, "ClientState.UpgradeState"))
	})
	c.Rule("C10/nothing-before-validity", "ETH CheckHeaderAndUpdateState prunes, indexes and re-organises only after checkValidity accepted the header: the parent of a fork header is looked up in the store as it was, not after the expired entries (possibly that very parent) were pruned", 2)
	nothingBeforeValidity(c, "C10/nothing-before-validity", "x/xibc/clients/light-clients/eth/types.ClientState.CheckHeaderAndUpdateState")
	c.Rule("C10/rule-constants-immutable", "the package-level big.Int constants of the header rules (difficulty bounds, base-fee parameters) are never the receiver of a mutating big.Int method, directly or through a value that may alias them: the rule applied to one header does not depend on the headers verified before it in this process", 20)
	for fn := range c.P.AllFuncs {
		if !inScope(fn) || len(fn.Blocks) == 0 || !strings.Contains(fnPkgPath(fn), "light-clients/eth/types") {
			continue
		}
		bad := ""
		var pos = fn.Pos()
		for _, s := range ndSites(c, fn) {
			if s.Kind == "global-mutation" {
				bad = s.What
				pos = s.Pos
			}
		}
		c.Req(bad == "", "C10/rule-constants-immutable", funcName(fn), pos, "", "a package-level big.Int is mutated: "+bad+" — every later header in this process is judged against the overwritten constant")
	}
}
