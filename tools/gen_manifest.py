#!/usr/bin/env python3
"""Generates /verif/MANIFEST.json from the per-property table below (kept next to the checker on purpose)."""
import json, os
ROOT = os.path.dirname(os.path.dirname(os.path.abspath(__file__)))
props = [json.loads(l) for l in open(os.path.join(ROOT, 'properties.jsonl'))]
TRUST = ("Trusted, not analysed: cosmos-sdk BaseApp / gov / ethermint cache-context atomicity, KVStore semantics, "
         "third-party verification libraries (tendermint light, ics23, go-ethereum trie/rlp/abi/crypto), contract byte code, "
         "go/packages + go/ssa (x/tools v0.29.0) as the model of the program. The check decides structural necessary conditions "
         "on every path of the current source; it is not a proof of the behavioural statement.")
# id -> (claimed?, text, technique, design_ref)  — filled in as checks are built
CLAIMS = {
 'C01': ("Decides on every path of the receive code: a receipt lookup whose found-edge rejects dominates the single receipt write; lookup, write and proof verification use the same (src,dst,seq) of the one packet decoded from msg.Packet; the receipt key depends on all three components; the receipts family has one writer, no deleter and two callers; callback and ack writes are dominated by a successful keeper receive. Not decided: histories, BaseApp revert, contract effects.",
         "SSA dominance + canonical access-path identity + key-shape extraction + who-may-call", "§5 C01"),
 'C02': ("Decides that receive / acknowledge accept only after the light client of the decoded packet's source (resp. destination) chain verified, at msg.ProofHeight, the recomputed packet hash (resp. hash of the ack bytes) under the packet's own triple, that the stored commitment equals the recomputed one before an ack is processed, that every write and success return is dominated by those checks, and that each client type's verifier ends in its membership check on the right path/slot. Frozen canonical guard tables (picked by source position, compared by canonical form). Not decided: soundness of ICS-23 / MPT / light verification.",
         "frozen canonical guard/effect tables over SSA path conditions; argument-origin identity", "§5 C02"),
 'C03': ("Decides the Go-side necessary conditions of 'delivered xor refunded': the destination callback runs on the cache context, write() is unreachable from the callback's error edge, every CallPacket/CallEVM site either propagates its error or runs on a cache context, a post-transaction hook failure marks the response failed, and the acknowledgement handler records exactly one outcome / fee / callback after verification. Not decided: conservation arithmetic in contract byte code, multi-chain histories.",
         "SSA path conditions, reachability from branch edges, error-propagation discipline over all call sites", "§5 C03"),
 'C04': ("Decides that SendPacket rejects unless sequence == stored next sequence, stores loaded+1 for the same pair, hands that same value to the contract counter, stores the commitment of that packet under its own sequence, each exactly once per success path, with all writes dominated by all checks; that the EVM hook only acts on PacketSent logs of the packet contract and returns every error; and who may write the sequence/commitment families. Not decided: contract counter, gap-freedom over histories.",
         "frozen canonical tables + acyclic path enumeration (exactly-once) + who-may-call/who-may-write", "§5 C04"),
 'C05': ("Decides that WriteAcknowledgement rejects an existing ack and stores the hash of its parameter under the packet's own triple, the acks family is never deleted or written elsewhere, every success path of a receive for this chain / an unknown destination writes exactly one ack, commitment deletion follows the stored==recomputed comparison and verification, and the ack handler performs outcome / fee / callback once each after verification. Not decided: histories, contract ackStatus semantics.",
         "frozen canonical tables + acyclic path enumeration + store-family ownership", "§5 C05"),
 'C06': ("Decides that client updates are dominated by AuthRelayer(msg.ChainName, msg.Signer) and the client's CheckMsg, receives by the found-edge of the relayer lookup for (packet source chain, signer) whose result is the ack's fee recipient, that the registry functions answer positively only under chain==chainName of the signer's record, GetSigners are bound to the authorised fields, privileged contract methods (constant names) are invoked only by their owning handlers, every module EVM call uses a module address as from (one audited signer site), and lifecycle entry points are reachable only from the gov handler. Not decided: the contracts' own msg.sender checks (byte code).",
         "frozen canonical tables + who-may-call over resolved callees + constant-argument ownership tables", "§5 C06"),
 'C07': ("Decides that every rejecting check of the tendermint client's update and proof paths is present with the same operands (trusted validator set hash vs stored next-validators hash, same revision, newer than trusted height, light.Verify bound to the stored consensus state / trusting period / ctx.BlockTime(), latest height only raised, consensus state = header time/app hash/next-validators hash, metadata at the header height, proof height <= latest, delay since processed time, expired status gate) and dominates the effects. Not decided: the inside of light.Verify, update histories.",
         "frozen canonical guard/effect tables over SSA path conditions", "§5 C07"),
 'C08': ("Decides, for the ETH and the BSC copy, that the storage-proof verifier keeps every binding (contract address, account proof under the stored root, account RLP, single storage proof, slot key derived from the call's own triple with the commitment/ack key, storage proof under the same storage hash, 32-byte left-padded value equality, height <= head, confirmation delay) on every success path, and that both copies have identical canonical guard sets. Not decided: completeness (accept iff valid), trie library behaviour.",
         "frozen canonical tables + sibling guard-set agreement", "§5 C08"),
 'C09': ("Decides that the BSC header path keeps all rejecting rules (structure, direct child of head, gas bounds, seal = coinbase, membership in the snapshot of current validators, recent-signer window, in/out-of-turn difficulty with sorted in-turn selection) and the state updates (signer recorded, pending set only at epoch blocks from header extra, switch only at the half-set offset, consensus state = header root/height/time, head := header). Not decided: ecrecover/sealHash vs real BSC, epoch histories.",
         "frozen canonical guard/effect/store tables over SSA path conditions", "§5 C09"),
 'C10': ("Decides that the ETH header path keeps parent lookup by (parent hash, height-1), parent-hash equality, timestamp window, EIP-1559 gas/base-fee rules, difficulty equality and proof-of-work (light mode) except on Rinkeby, the seal checks, and the index/root/consensus-state/head updates. The 'forks never wedge it' and ancestry clauses are declined (history properties of RestrictChain's loops).",
         "frozen canonical guard/effect/store tables over SSA path conditions", "§5 C10"),
 'C11': ("Decides that both conversion entry points are gated by MintingEnabled on the message's own fields (with all its rejecting conditions), dispatch on pair ownership with a rejecting default, and that each of the four conversion functions performs exactly its bank/EVM effects with amounts originating only from the message, propagates every error and reaches success only after the post-call balance equals pre-call balance +/- amount. Not decided: 'fully backed at all times' over histories, misreporting tokens.",
         "frozen canonical tables + amount-origin dataflow + effect-set tables", "§5 C11"),
 'C12': ("Decides the index discipline of the registry: the denomination/contract tested as not-registered is the one indexed, whoever stores a pair indexes its contract and all its denominations under the pair's own id, delete removes every index entry, raw writes only in accessors with a fixed caller set, id depends on address and first denomination. Not decided: consistency over arbitrary governance histories.",
         "guard-key = write-key identity over SSA path conditions, three-way-write tables, who-may-call/write", "§5 C12"),
 'C13': ("Decides written ⊆ exported ⊆ imported for every key family of the xibc and aggregate stores (writer shapes extracted symbolically; exporters reachable from ExportGenesis and iterating a prefix of the family), that no reader tokenises binary-height keys with an unbounded split, that every GenesisState field is exported and consumed, that sibling ClientType constants agree, that exports are sorted. One known finding (tendermint iteration keys). Not decided: value-level store equality.",
         "symbolic key-shape extraction + call-graph reachability + table agreement", "§5 C13"),
 'C14': ("Decides that every map range, wall-clock read, random source, OS/filesystem/network access, goroutine, channel operation and runtime query reachable (VTA call graph) from all block-processing entry points is discharged by an order-insensitivity proof of the loop body, a telemetry-only dataflow, or an audited entry whose side condition (no disk directory in any reachable ethash Config, VerifySeal with fulldag=false) is re-checked. Not decided: replay equality itself, dependencies.",
         "call-graph reachability + forbidden-construct inventory with machine-checked discharge", "§5 C14"),
 'C15': ("Decides that every panic source (explicit panic, Must* call, known may-panic callee, integer / or % by a non-constant, constant index or slice bound, unchecked type assertion) in code reachable from the non-recovered entry points is discharged by a class rule, a local guard, a validated-field fact (rejecting guard present in the stateless validator, re-extracted every run) or an audited entry; unaudited new sources are violations. One known finding (rvesting InitGenesis funding panic). Not decided: panics inside dependencies, computed indices beyond recognised idioms.",
         "call-graph reachability + panic-source inventory with validator-guard side conditions", "§5 C15"),
 'C16': ("Decides that the ICS-20 hook returns the acknowledgement it was handed on every path, the middleware forwards unmodified arguments and returns the wrapped ack on failure, the conversion runs on the cache context with write() only on success, the converted amount/denom/receiver come from the one decoded packet, and the app wiring routes transfer through the middleware. Not decided: ibc-go's handling of the value, balances.",
         "return-value origin + SSA path conditions + wiring tables", "§5 C16"),
 'C17': ("Decides that both adapters dispatch only logs of their system contract address, every event name is registered to the handler that parses that very event, handlers build messages only from event fields and return ExecuteMsg's error, ExecuteMsg validates and routes, BurnCoins is one transfer to the fee collector, and staking/gov keepers are wired to the redirecting bank keeper. Not decided: contract byte code emitting msg.sender, EVM nested calls.",
         "frozen canonical tables + registration-table agreement + wiring tables", "§5 C17"),
 'C18': ("Decides that create/toggle/upgrade initialise the very client state they install on that chain's store and store the consensus state at its latest height with errors propagated, existence/type guards dominate writes, UpdateClient is gated by status and stores the returned state, and no implementation of an exported interface returns nil for a result that an in-scope caller dereferences unguarded. Not decided: 'proofs verify after the delay' as behaviour, proposal atomicity (gov).",
         "argument/receiver origin identity + SSA path conditions + nil-result contradiction rule", "§5 C18"),
 'C19': ("Decides table agreement between ABI tuples, Go structs and JSON tags for all six (struct, tuple) pairs in both directions (pack via ToCamelCase, decode via JSON key), full field coverage, that commitments hash the whole encoding, key shapes (injective fixed-width height key, ordered triple keys, agreeing path/key constructors), prefix-free family heads, the identifier character class excluding '/', and sound key tokenisation. Not decided: decoder canonicality, value-level round trips.",
         "table agreement over go/types + symbolic key shapes + constant evaluation of the identifier regexp", "§5 C19"),
 'C20': ("Decides that BeginBlocker does nothing unless enabled, adds exactly min-structure (balance if balance<reward else reward) of the reward's own denomination skipping empty pools, transfers once if non-zero via a single module-to-module send to the wired fee collector, that rvesting moves money nowhere else, runs before distribution, and that the validator rejects duplicate denominations. Not decided: supply conservation over block sequences (bank).",
         "SSA path conditions + canonical comparison form + effect ownership + wiring tables", "§5 C20"),
}
checks, na = [], []
for p in props:
    pid = p['id']
    if pid in CLAIMS:
        text, tech, ref = CLAIMS[pid]
        checks.append({
            "property_id": pid,
            "quick_cmd": f"./check {pid} quick",
            "thorough_cmd": f"./check {pid} thorough",
            "evidence_file": f"/verif/evidence/{pid}.json",
            "replay_cmd_template": f"./check {pid} quick  # violation details: {{path}}",
            "engine": "xlint",
            "level_claimed": {"category": "other", "text": text, "design_ref": ref},
            "level_note": TRUST,
            "technique": tech,
        })
    else:
        na.append({"property_id": pid, "reason": "static check under construction in this session (see DESIGN.md §5); not claimed until its rules are armed and validated"})
m = {
 "version": 1,
 "setup_cmd": "cd /verif/xlint && GOFLAGS=-mod=mod GOPROXY=off GOSUMDB=off GOTOOLCHAIN=local GOWORK=off go build -o /verif/bin/xlint .",
 "hooks": {"guard": "verif", "enable": "none needed: static analysis reads the source; no instrumentation exists in /repo",
           "baseline_off_cmd": "cd /repo && go test -mod=mod -vet=off -count=1 -timeout 25m ./...", "source_commits": [], "add_only": True},
 "engines": [{"name": "xlint", "path": "/verif/xlint", "serves_properties": [c["property_id"] for c in checks],
              "kind_free_text": "repository-specific static analyser (go/packages, go/ssa, call graph); rules as tables per property"}],
 "checks": checks,
 "not_applicable": na,
 "notes": "All checks load and type-check /repo's working tree on every run; exit 0 held / 1 VIOLATION / 2 checker failure (unresolved anchor, type error, vacuous rule).",
}
json.dump(m, open(os.path.join(ROOT, 'MANIFEST.json'), 'w'), indent=1)
print(len(checks), "claimed;", len(na), "not applicable")
