#!/usr/bin/env python3
"""Generates /verif/MANIFEST.json from the per-property table below (kept next to the checker on purpose)."""
import json, os
ROOT = os.path.dirname(os.path.dirname(os.path.abspath(__file__)))
props = [json.loads(l) for l in open(os.path.join(ROOT, 'properties.jsonl'))]
TRUST = ("Trusted, not analysed: cosmos-sdk BaseApp / gov / ethermint cache-context atomicity, KVStore semantics, "
         "third-party verification libraries (tendermint light, ics23, go-ethereum trie/rlp/abi/crypto), contract byte code, "
         "go/packages + go/ssa (x/tools v0.29.0) as the model of the program. The check decides structural necessary conditions "
         "on every path of the current source; it is not a proof of the behavioural statement.")
# id -> (claimed?, text, technique, design_ref)  — filled in as checks are built
CLAIMS = {
 'C01': ("Decides, on every path of the receive code: receipt lookup with rejecting found-edge dominates the single receipt write; lookup, write and proof verification use the same (src,dst,seq) of the one packet decoded from msg.Packet; the receipt key depends on all three components; the receipts family has one writer, no deleter, two callers; callback and ack writes are dominated by successful keeper receive. Not decided: histories, BaseApp revert, contract effects.",
         "SSA dominance + canonical access-path identity + key-shape extraction + who-may-call over the type-checked program", "§5 C01"),
}
checks, na = [], []
for p in props:
    pid = p['id']
    if pid in CLAIMS:
        text, tech, ref = CLAIMS[pid]
        checks.append({
            "property_id": pid,
            "quick_cmd": f"./check {pid} quick",
            "thorough_cmd": f"./check {pid} thorough",
            "evidence_file": f"/verif/evidence/{pid}.json",
            "replay_cmd_template": f"./check {pid} quick  # violation details: {{path}}",
            "engine": "xlint",
            "level_claimed": {"category": "other", "text": text, "design_ref": ref},
            "level_note": TRUST,
            "technique": tech,
        })
    else:
        na.append({"property_id": pid, "reason": "static check under construction in this session (see DESIGN.md §5); not claimed until its rules are armed and validated"})
m = {
 "version": 1,
 "setup_cmd": "cd /verif/xlint && GOFLAGS=-mod=mod GOPROXY=off GOSUMDB=off GOTOOLCHAIN=local GOWORK=off go build -o /verif/bin/xlint .",
 "hooks": {"guard": "verif", "enable": "none needed: static analysis reads the source; no instrumentation exists in /repo",
           "baseline_off_cmd": "cd /repo && go test -mod=mod -vet=off -count=1 -timeout 25m ./...", "source_commits": [], "add_only": True},
 "engines": [{"name": "xlint", "path": "/verif/xlint", "serves_properties": [c["property_id"] for c in checks],
              "kind_free_text": "repository-specific static analyser (go/packages, go/ssa, call graph); rules as tables per property"}],
 "checks": checks,
 "not_applicable": na,
 "notes": "All checks load and type-check /repo's working tree on every run; exit 0 held / 1 VIOLATION / 2 checker failure (unresolved anchor, type error, vacuous rule).",
}
json.dump(m, open(os.path.join(ROOT, 'MANIFEST.json'), 'w'), indent=1)
print(len(checks), "claimed;", len(na), "not applicable")
