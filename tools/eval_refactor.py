#!/usr/bin/env python3
"""Evaluate a behaviour-preserving refactor from a round-3 agent: it must build, pass the suite, and raise NO alarm.
usage: eval_refactor.py <Cxx>   (reads /tmp/out3_Cxx/mutation3.diff, notes3.md; uses worktree /tmp/wt3_Cxx)"""
import json, os, re, subprocess, sys, shutil
pid = sys.argv[1]
rnd = sys.argv[2] if len(sys.argv) > 2 else "3"
out, wt = f"/tmp/out{rnd}_{pid}", f"/tmp/wt{rnd}_{pid}"
env = dict(os.environ, GOFLAGS="-mod=mod", GOPROXY="off", GOSUMDB="off", GOTOOLCHAIN="local")
def sh(cmd, cwd=None):
    p = subprocess.run(cmd, shell=True, cwd=cwd, env=env, capture_output=True, text=True, errors='replace', timeout=1800)
    return p.returncode, p.stdout + p.stderr
patch = f"{out}/mutation3.diff"
assert os.path.exists(patch), "no mutation3.diff"
sh("git checkout -- . && git clean -fdq", wt)
meta = {"property": pid, "kind": "behaviour-preserving refactor (negative control from an independent agent)"}
rc, o = sh(f"git apply {patch}", wt); meta["patch_applies"] = rc == 0
rc, o = sh("go build ./...", wt); meta["builds"] = rc == 0
rc, o = sh("go test -json -vet=off -count=1 -timeout 25m ./... 2>/dev/null", wt)
base = json.load(open('/root/.vp/BASELINE.json'))
res = {}
for l in o.split("\n"):
    try: e = json.loads(l)
    except Exception: continue
    if e.get('Action') in ('pass', 'fail') and e.get('Test'): res[e['Package'] + '::' + e['Test']] = e['Action']
missing = [t for t in base['stable_pass'] if res.get(t) != 'pass']
meta["suite_stable_passing"] = f"{len(base['stable_pass'])-len(missing)}/{len(base['stable_pass'])}"
rc, o = sh("git diff --stat | tail -1", wt); meta["size"] = o.strip()
alarms = {}
meta["applies_to_repo"] = meta["patch_applies"]
if meta["patch_applies"] and meta["builds"]:
    # the checks run on the scratch worktree with the refactor applied (never on /repo)
    p = subprocess.run("./check all quick", shell=True, cwd="/verif", env=dict(env, VERIF_NO_EVIDENCE="1", VERIF_REPO=wt), capture_output=True, text=True)
    cur = None
    for l in p.stdout.split("\n"):
        m = re.match(r"VIOLATION property=(C\d+)", l)
        if m: cur = m.group(1)
        m2 = re.match(r"\s+rule=(\S+) construct=(.*) at ", l)
        if m2 and cur:
            alarms.setdefault(cur, [])
            if len(alarms[cur]) < 6: alarms[cur].append(m2.group(1) + " :: " + m2.group(2)[:200])
    meta["checker_failures"] = [l[:200] for l in p.stdout.split("\n") if l.startswith("CHECKER-FAILURE")][:3]
sh("git checkout -- . && git clean -fdq", wt)
meta["alarms"] = alarms
d = f"/verif/seeded/{pid}-r{rnd}-refactor"
os.makedirs(d, exist_ok=True)
shutil.copy(patch, f"{d}/patch.diff")
if os.path.exists(f"{out}/notes3.md"): shutil.copy(f"{out}/notes3.md", f"{d}/notes.md")
json.dump(meta, open(f"{d}/meta.json", "w"), indent=1)
print(pid, "refactor:", "builds" if meta["builds"] else "NO-BUILD", meta["suite_stable_passing"], meta["size"], "| alarms:", {k: len(v) for k, v in alarms.items()}, meta.get("checker_failures"))
