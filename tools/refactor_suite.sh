#!/bin/bash
# Runs every behaviour-preserving refactor kept under seeded/*-refactor against the checks (on a scratch worktree): all must stay silent.
# usage: tools/refactor_suite.sh [name-glob]
export GOFLAGS=-mod=mod GOPROXY=off GOSUMDB=off GOTOOLCHAIN=local
W=/tmp/wt_refsuite
git -C /repo worktree remove --force $W >/dev/null 2>&1
git -C /repo worktree add --detach $W HEAD >/dev/null 2>&1 || exit 2
for d in /verif/seeded/${1:-*}-refactor; do
  n=$(basename $d)
  git -C $W checkout -q -- . && git -C $W clean -fdq
  if ! git -C $W apply $d/patch.diff 2>/dev/null; then echo "$n: patch does not apply"; continue; fi
  out=$(cd /verif && VERIF_NO_EVIDENCE=1 VERIF_REPO=$W ./check all quick 2>&1)
  nv=$(echo "$out" | grep -c "^VIOLATION")
  echo "$n: $nv alarm(s) $(echo "$out" | grep "CHECKER-FAILURE" | cut -c1-160)"
  echo "$out" | grep "^  rule=" | sed 's/ at .*//' | cut -c1-220 | sort | uniq -c | head -${SHOW:-12}
done
git -C /repo worktree remove --force $W >/dev/null 2>&1
