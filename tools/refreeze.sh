#!/bin/bash
# Re-freezes every picks file against a clean tree (default /repo) and rebuilds the checker. usage: tools/refreeze.sh [tree]
export GOFLAGS=-mod=mod GOPROXY=off GOSUMDB=off GOTOOLCHAIN=local GOWORK=off
T=${1:-/repo}
cd /verif/xlint && go build -o ../bin/xlint . || exit 2
for f in picks/*.txt; do p=$(basename $f .txt)
  ../bin/xlint -repo $T -freeze $f > /tmp/t_$p.json 2>/tmp/t_$p.err || { echo "FAIL $p: $(head -3 /tmp/t_$p.err)"; continue; }
  d=$(diff <(python3 -m json.tool tables/$p.json) <(python3 -m json.tool /tmp/t_$p.json) | grep -c '^[<>]')
  echo -n "$p:$d "; [ "$d" != "0" ] && cp /tmp/t_$p.json tables/$p.json
done; echo
go build -o ../bin/xlint .
