#!/usr/bin/env python3
"""Regenerates the table of DESIGN.md §9.7 (rules per property, instance counts) from /verif/evidence/*.json.
The table sits between the markers <!-- rules-table:begin --> and <!-- rules-table:end -->."""
import json, re
rows = ["| property | obligations | rules (instances) |", "|---|---|---|"]
for i in range(1, 21):
    p = f"C{i:02d}"
    cov = json.load(open(f"/verif/evidence/{p}.json"))["coverage"]
    ri = cov.get("rule_instances", {})
    rules = ", ".join(f"{k.split('/',1)[1]} ({v})" for k, v in sorted(ri.items()))
    rows.append(f"| {p} | {cov['obligations']} | {rules} |")
table = "\n".join(rows)
s = open("/verif/DESIGN.md").read()
b, e = "<!-- rules-table:begin -->", "<!-- rules-table:end -->"
assert b in s and e in s
s = s[:s.index(b) + len(b)] + "\n" + table + "\n" + s[s.index(e):]
open("/verif/DESIGN.md", "w").write(s)
print("table rewritten,", len(rows) - 2, "rows")
