#!/usr/bin/env python3
"""Confirm a sub-agent mutation independently and run the checks against it.
usage: eval_mutation.py <Cxx> <k>     (reads /tmp/out_Cxx/mutation<k>.diff, demo<k>_test.go, notes<k>.md; uses worktree /tmp/wt_Cxx)
Writes /verif/seeded/<Cxx>-<k>/{patch.diff,demo_test.go,notes.md,meta.json}."""
import json, os, re, subprocess, sys, shutil
pid, k = sys.argv[1], sys.argv[2]
rnd = sys.argv[3] if len(sys.argv) > 3 else "1"   # round: 1 → /tmp/out_Cxx, /tmp/wt_Cxx ; 2 → /tmp/out2_Cxx, /tmp/wt2_Cxx
sfx = "" if rnd == "1" else rnd
out = f"/tmp/out{sfx}_{pid}"
wt = f"/tmp/wt{sfx}_{pid}"
env = dict(os.environ, GOFLAGS="-mod=mod", GOPROXY="off", GOSUMDB="off", GOTOOLCHAIN="local")
def sh(cmd, cwd=None, timeout=1800):
    p = subprocess.run(cmd, shell=True, cwd=cwd, env=env, capture_output=True, text=True, errors='replace', timeout=timeout)
    return p.returncode, (p.stdout + p.stderr)
def reset():
    sh("git checkout -- . && git clean -fdq", wt)
patch = f"{out}/mutation{k}.diff"
demo = f"{out}/demo{k}_test.go"
assert os.path.exists(patch) and os.path.exists(demo), "missing deliverables"
lines = open(demo).read().split("\n")
place = re.sub(r"^//\s*place at:\s*", "", lines[0]).strip()
run = re.sub(r"^//\s*run:\s*", "", lines[1]).strip()
meta = {"property": pid, "mutation": int(k), "demo_place": place, "demo_run": run}
reset()
os.makedirs(os.path.dirname(f"{wt}/{place}"), exist_ok=True)
shutil.copy(demo, f"{wt}/{place}")
rc, o = sh(run, wt)
meta["demo_without_change"] = "pass" if rc == 0 else "FAIL"
rc, o = sh(f"git apply {patch}", wt)
meta["patch_applies"] = rc == 0
rc, o = sh("go build ./...", wt)
meta["builds"] = rc == 0
rc, o = sh(run, wt)
meta["demo_with_change"] = "fail" if rc != 0 else "PASS"
# full suite (without the demo file)
os.remove(f"{wt}/{place}")
rc, o = sh("go test -json -vet=off -count=1 -timeout 25m ./... 2>/dev/null", wt)
base = json.load(open('/root/.vp/BASELINE.json'))
res = {}
for l in o.split("\n"):
    try: e = json.loads(l)
    except Exception: continue
    if e.get('Action') in ('pass', 'fail') and e.get('Test'):
        res[e['Package'] + '::' + e['Test']] = e['Action']
missing = [t for t in base['stable_pass'] if res.get(t) != 'pass']
meta["suite_stable_passing"] = f"{len(base['stable_pass'])-len(missing)}/{len(base['stable_pass'])}"
meta["suite_not_passing"] = missing[:5]
reset()
# run the checks against the scratch worktree with the mutation applied (never /repo)
rc, o = sh(f"git apply {patch}", wt)
meta["applies_to_repo"] = rc == 0
caught = {}
if rc == 0:
    e2 = dict(env, VERIF_NO_EVIDENCE="1", VERIF_REPO=wt)
    p = subprocess.run("./check all quick", shell=True, cwd="/verif", env=e2, capture_output=True, text=True)
    cur = None
    for l in p.stdout.split("\n"):
        m = re.match(r"VIOLATION property=(C\d+)", l)
        if m: cur = m.group(1)
        m2 = re.match(r"\s+rule=(\S+) construct=(.*) at ", l)
        if m2 and cur:
            caught.setdefault(cur, [])
            if len(caught[cur]) < 3: caught[cur].append(m2.group(1) + " :: " + m2.group(2)[:160])
    meta["checker_failures"] = [l[:200] for l in p.stdout.split("\n") if l.startswith("CHECKER-FAILURE")][:3]
reset()
meta["caught_by"] = caught
meta["caught_by_own_property"] = pid in caught
valid = meta["patch_applies"] and meta["builds"] and meta["demo_without_change"] == "pass" and meta["demo_with_change"] == "fail" and not missing
meta["confirmed_valid"] = valid
d = f"/verif/seeded/{pid}-{k}" if rnd == "1" else f"/verif/seeded/{pid}-r{rnd}-{k}"
meta["round"] = int(rnd)
os.makedirs(d, exist_ok=True)
shutil.copy(patch, f"{d}/patch.diff"); shutil.copy(demo, f"{d}/demo_test.go")
if os.path.exists(f"{out}/notes{k}.md"): shutil.copy(f"{out}/notes{k}.md", f"{d}/notes.md")
json.dump(meta, open(f"{d}/meta.json", "w"), indent=1)
print(pid, k, "valid" if valid else "INVALID", "caught-by:", sorted(caught.keys()), "| own:", meta["caught_by_own_property"], "| suite", meta["suite_stable_passing"], "| demo", meta["demo_without_change"], "/", meta["demo_with_change"])
