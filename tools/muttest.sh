#!/bin/bash
# usage: muttest.sh <props> <patch-file>   — apply a patch to /repo, run the checks, restore /repo.
set -u
PROPS="$1"; PATCH="$2"
cd /repo || exit 3
if [ -n "$(git status --porcelain)" ]; then echo "repo dirty, refusing"; exit 3; fi
git apply "$PATCH" || { echo "patch does not apply"; exit 3; }
(cd /verif && VERIF_NO_EVIDENCE=1 ./check "$PROPS" quick 2>&1 | grep -v "^  rule text" | cut -c1-400)
rc=$?
git checkout -- . ; git clean -fdq -- . 2>/dev/null
exit $rc
