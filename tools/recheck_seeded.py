#!/usr/bin/env python3
"""Re-run every check against every confirmed seeded change (applies the patch to /repo, runs ./check all quick, reverts)."""
import glob, json, os, re, subprocess
R = os.environ.get("RECHECK_REPO", "/tmp/wt_recheck")   # scratch worktree (never /repo itself)
if not os.path.isdir(R):
    subprocess.run(f"git -C /repo worktree add --detach {R} HEAD", shell=True, check=True, capture_output=True)
env = dict(os.environ, VERIF_NO_EVIDENCE="1", VERIF_REPO=R)
rows = []
for d in sorted([d for d in glob.glob(os.environ.get("SEEDED_GLOB","/verif/seeded/C*-*")) if not d.endswith('-refactor')]):
    meta = json.load(open(d + '/meta.json'))
    assert subprocess.run("git status --porcelain", shell=True, cwd=R, capture_output=True, text=True).stdout.strip() == ""
    if subprocess.run(f"git apply {d}/patch.diff", shell=True, cwd=R).returncode != 0:
        print(d, "patch no longer applies"); continue
    p = subprocess.run("./check all quick", shell=True, cwd="/verif", env=env, capture_output=True, text=True)
    subprocess.run("git checkout -- . && git clean -fdq", shell=True, cwd=R)
    caught, cur = {}, None
    for l in p.stdout.split("\n"):
        m = re.match(r"VIOLATION property=(C\d+)", l)
        if m: cur = m.group(1)
        m2 = re.match(r"\s+rule=(\S+) construct=(.*) at ", l)
        if m2 and cur:
            caught.setdefault(cur, [])
            if len(caught[cur]) < 3: caught[cur].append(m2.group(1) + " :: " + m2.group(2)[:160])
    meta["caught_by"] = caught
    meta["caught_by_own_property"] = meta["property"] in caught
    json.dump(meta, open(d + '/meta.json', 'w'), indent=1)
    rows.append((os.path.basename(d), sorted(caught.keys()), meta["caught_by_own_property"]))
    print(os.path.basename(d), sorted(caught.keys()), "own:", meta["caught_by_own_property"], flush=True)
print("all caught by own property:", all(r[2] for r in rows), len(rows))
