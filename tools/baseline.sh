#!/bin/bash
# Runs /repo's full test suite (guard off) and compares with the 414 stable tests of BASELINE.json.
cd /repo || exit 2
export GOFLAGS=-mod=mod GOPROXY=off GOSUMDB=off GOTOOLCHAIN=local
go test -json -vet=off -count=1 -timeout 25m ./... 2>/dev/null > /tmp/baseline_run.json
python3 - <<'PY'
import json
base=json.load(open('/root/.vp/BASELINE.json'))
want=set(base['stable_pass'])
res={}
for l in open('/tmp/baseline_run.json'):
    try: e=json.loads(l)
    except: continue
    if e.get('Action') in ('pass','fail') and e.get('Test'):
        res[e['Package']+'::'+e['Test']]=e['Action']
missing=[t for t in want if res.get(t)!='pass']
extra_fail=[t for t,a in res.items() if a=='fail' and t not in base.get('always_fail',[])]
print("stable tests passing: %d/%d"%(len(want)-len(missing),len(want)))
for t in missing[:20]: print("  NOT PASSING:",t,res.get(t))
for t in extra_fail[:20]: print("  NEW FAIL:",t)
raise SystemExit(1 if missing or extra_fail else 0)
PY
rc=$?; rm -f /tmp/baseline_run.json; exit $rc
