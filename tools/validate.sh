#!/bin/bash
# validates MANIFEST.json and every evidence file against the schemas
python3-vt - <<'PY'
import json,jsonschema,glob
jsonschema.validate(json.load(open('/verif/MANIFEST.json')), json.load(open('/root/.vp/MANIFEST.schema.json')))
es=json.load(open('/root/.vp/EVIDENCE.schema.json'))
for f in sorted(glob.glob('/verif/evidence/C*.json')):
    if f.endswith('.violation.json'): continue
    jsonschema.validate(json.load(open(f)), es)
print('manifest + evidence valid')
PY
